"""Using a callee's contract at a call site (modular verification), and calls of symbolic function values."""
import ast

import z3

from . import vals as V
from .sym import Z, C, LList, LTuple, LDict, SObj, ZBool, ZInt, ZSeq, Unsupported

FUNC_FAMILIES = []      # [dict(name=, members=[qualnames], raises=[kinds], result_is_bool=bool)]

ApplyFn = z3.Function("ApplyFn", V.I, V.VS, V.Val, V.Val)       # function id, positional args, keyword dict -> result
ApplyErr = z3.Function("ApplyErr", V.I, V.VS, V.Val, V.I)       # 0 = returns normally, else exception kind code


def function_family(**kw):
    FUNC_FAMILIES.append(kw)


def eval_clause(ip, fn, env, what):
    """Interpret a contract clause (a lambda / function object) on executor values; arguments bound by name."""
    from .interp import Frame
    node = ip.program.node_of(fn)
    if node is None:
        raise Unsupported(f"no source for contract clause {what}")
    names = [a.arg for a in node.args.args] + [a.arg for a in node.args.kwonlyargs]
    call_env = {}
    for n in names:
        if n not in env:
            raise Unsupported(f"contract clause {what} asks for unknown parameter {n!r}")
        call_env[n] = env[n]
    fr = Frame(fn, call_env, fn.__globals__, None, what)
    # closures of the clause (free variables) are read from the real function object
    if fn.__closure__:
        for name, cell in zip(fn.__code__.co_freevars, fn.__closure__):
            fr.env.setdefault(name, ip.wrap(cell.cell_contents))
    if isinstance(node, ast.Lambda):
        return ip.eval(node.body, fr)
    from .interp import ReturnSig
    try:
        ip.exec_block(node.body, fr)
    except ReturnSig as r:
        return r.value
    return C(None)


CLAUSE_CACHE = False      # goal-mode clauses embed instances of path-specific quantified facts: not cacheable


def clause_bool(ip, fn, env, what, mode="goal"):
    """A contract clause as one z3 Bool (all its paths merged; the caller's path is not forked).
    mode 'goal': forall_idx is skolemised (known quantified facts instantiated at the skolem);
    mode 'assume': forall_idx registers a quantified fact for later instantiation."""
    from .comp import merged_bool
    prev = getattr(ip, "clause_mode", None)
    ip.clause_mode = mode
    try:
        from .comp import value_key
        node = ip.program.node_of(fn)
        key = ("clause", id(node)) + tuple((k, value_key(v)) for k, v in sorted(env.items()) if k in
                                            {a.arg for a in node.args.args}) if node is not None else None
        return merged_bool(ip, lambda sub: eval_clause(sub, fn, env, what), key if CLAUSE_CACHE else None)
    finally:
        ip.clause_mode = prev


def is_writable(ip, v):
    """May the caller let a callee modify v?  (fresh in this activation, or covered by the caller's own modifies)"""
    from .builtins_model import FreshZ
    if isinstance(v, FreshZ):
        return bool(v.deep)       # handing a value over for modification means deep modification: a shallow copy will not do
    if isinstance(v, (SObj, LList, LDict)):
        return bool(v.fresh) or id(v) in ip.modifies_ok or (isinstance(v, SObj) and (v.oid, "*") in ip.modifies_ok)
    if isinstance(v, C) and isinstance(v.v, (type(None), bool, int, float, str)):
        return True
    return id(v) in ip.modifies_ok


def _attr_writable(ip, v, attr):
    from .builtins_model import FreshZ
    if is_writable(ip, v) or isinstance(v, FreshZ):
        return True
    return isinstance(v, Z) and ("zattr", v.t.get_id(), attr) in ip.modifies_ok


def modifies_applies(ip, con, node, bound):
    """Evaluate the optional `modifies_when` guard of a frame contract on the actual arguments (defaults from the ast)."""
    when = getattr(con, "modifies_when", None)
    if when is None:
        return True
    import inspect as _insp
    want = list(_insp.signature(when).parameters)
    vals = {}
    for w in want:
        if w in bound:
            vals[w] = bound[w]
        else:
            d = _insp.signature(when).parameters[w].default
            vals[w] = C(d)
    from .comp import merged_bool
    cond = merged_bool(ip, lambda sub: eval_clause(sub, when, vals, "modifies_when"))
    cond = z3.simplify(cond)
    if z3.is_false(cond):
        return False
    if z3.is_true(cond):
        return True
    return ip.path.feasible(cond)            # may modify on some input consistent with the path


def check_modifies_args(ip, con, node, args, kwargs, qn):
    """Frame check of a call against the callee's `modifies` clause (entries 'param' or 'param.attr')."""
    if not con.modifies:
        return
    pos = [a.arg for a in node.args.posonlyargs + node.args.args]
    bound = {p: a for p, a in zip(pos, args)}
    bound.update({k: v for k, v in kwargs.items() if k != "**"})
    if not modifies_applies(ip, con, node, bound):
        return
    for m in con.modifies:
        pname = m.split(".", 1)[0]
        v = bound.get(pname)
        if v is None:
            continue
        if isinstance(v, SObj) and "." in m:
            attr = m.split(".", 1)[1]
            if not v.fresh and (v.oid, attr) not in ip.modifies_ok and (v.oid, "*") not in ip.modifies_ok:
                ip.frame_violation(f"call of {qn} modifies {v.name}.{attr}")
            continue
        ok = _attr_writable(ip, v, m.split(".", 1)[1]) if "." in m else is_writable(ip, v)
        if not ok:
            ip.frame_violation(f"call of {qn} modifies its argument `{m}`, which is not fresh in the caller")


def apply_interface(ip, con, recv, args, kwargs):
    """Call of an abstract method on a receiver of unknown class through its interface contract."""
    env = {}
    names = con.param_names
    allargs = [recv] + list(args)
    kwargs = dict(kwargs)
    for i, (n, d) in enumerate(names):
        if i < len(allargs):
            env[n] = allargs[i]
        elif n in kwargs:
            env[n] = kwargs.pop(n)
        else:
            env[n] = C(d)
    if kwargs or len(allargs) > len(names):
        from .interp import PyRaise
        raise PyRaise("TypeError", msg="argument mismatch")
    return _apply(ip, con, env, None, None, None)


def apply_contract(ip, con, f, args, kwargs):
    from .interp import PyRaise
    node = ip.program.node_of(f)
    env = {}
    ip.bind_params(node.args, args, kwargs, env, f.__name__)
    if not con.frame_only and not in_domain(ip, con, env):
        # a function may have several contracts (tagged `qualname#tag`) for different parameter shapes
        base = con.qualname.split("#")[0]
        for name, alt in ip.contracts.items():
            if name != con.qualname and name.split("#")[0] == base and not alt.frame_only and not alt.inline_at_calls \
                    and not alt.assumed and name != ip.verifying and in_domain(ip, alt, env):
                ip.contract_calls.add(name)
                return _apply(ip, alt, env, f, args, kwargs)
        # the call is outside the shapes the contract was proved for (a constant parameter with another value, a receiver of
        # another class): the contract says nothing about it, the body is executed instead
        ip.assumptions_used.add(f"call of {con.qualname} outside its contract's parameter shapes: body inlined")
        return ip.call_function(f, args, kwargs, force_inline=True)
    return _apply(ip, con, env, f, args, kwargs)


def in_domain(ip, con, env):
    """Do the actual arguments lie within the parameter shapes of the contract (checked for the shapes that restrict:
    constants and objects of given classes)?"""
    from .contracts import Const, Obj, FreshObj
    members = con.variants or [{}]
    # ghost constants that differ between family members cannot be bound at a call site (which member is it?)
    for k, sh in members[0].items():
        if k.startswith("_") and k not in env and not all(
                isinstance(v.get(k), Const) and isinstance(sh, Const) and v[k].value is sh.value for v in members):
            return False
    for pn, actual in env.items():
        shapes = [dict(con.params, **v).get(pn) for v in members]
        if not any(shape_admits(ip, sh, actual) for sh in shapes):
            return False
    return True


def shape_admits(ip, sh, actual):
    """Is the actual argument (as the executor represents it) certainly a value of the shape?  Conservative: `False` only
    sends the caller to the callee's body."""
    from . import contracts as CT
    if sh is None or type(sh).__name__ in ("AnyVal", "Opaque"):
        return True
    if isinstance(sh, CT.Const):
        return isinstance(actual, C) and (actual.v is sh.value or (type(actual.v) is type(sh.value) and actual.v == sh.value))
    if isinstance(sh, (CT.Obj, CT.FreshObj, CT.ObjVal)):
        cls = ip.program.resolve(sh.cls) if isinstance(sh.cls, str) else sh.cls
        if isinstance(actual, SObj):
            return issubclass(actual.cls, cls)
        return isinstance(actual, Z) and getattr(actual, "cls", None) is not None and issubclass(actual.cls, cls)
    if isinstance(actual, SObj):
        return False                     # every remaining shape is a plain value, not a program object
    name = type(sh).__name__

    def ctor(t):
        return t.decl().name() if z3.is_app(t) else ""
    if name in ("ListVal", "ListOf"):
        return isinstance(actual, LList) or (isinstance(actual, ZSeq) and actual.kind == "list") or (
            isinstance(actual, Z) and ctor(actual.t) == "VList") or (isinstance(actual, C) and isinstance(actual.v, list))
    if name == "DictVal":
        return isinstance(actual, LDict) or (isinstance(actual, Z) and ctor(actual.t) == "VDict") or (
            isinstance(actual, C) and isinstance(actual.v, dict))
    if name == "TupleOf":
        return isinstance(actual, LTuple) or (isinstance(actual, ZSeq) and actual.kind == "tuple") or (
            isinstance(actual, Z) and ctor(actual.t) == "VTuple") or (isinstance(actual, C) and isinstance(actual.v, tuple))
    if name == "Bool":
        return isinstance(actual, ZBool) or (isinstance(actual, C) and isinstance(actual.v, bool))
    if name == "Int":
        return isinstance(actual, ZInt) or (isinstance(actual, C) and type(actual.v) is int)
    if name == "Str":
        return (isinstance(actual, Z) and ctor(actual.t) == "VStr") or (isinstance(actual, C) and isinstance(actual.v, str))
    adm = getattr(sh, "admits", None)
    if adm is not None:
        return bool(adm(ip, actual))
    if name in ("JsonVal", "Scalar", "FuncVal", "OneOf"):
        return isinstance(actual, (Z, C, ZBool, ZInt)) and name in ("JsonVal", "OneOf")
    return False           # a shape defined next to its contract (a family member): only that contract's own proof builds it


def _apply(ip, con, env, f, args, kwargs):
    from .interp import PyRaise
    node = ip.program.node_of(f) if f is not None else None
    qn = con.qualname
    if con.variants:        # ghost constants shared by every member of the family (the operator of a class)
        from .contracts import Const
        for k, sh in con.variants[0].items():
            if k not in env and isinstance(sh, Const) and all(
                    isinstance(v.get(k), Const) and v[k].value is sh.value for v in con.variants):
                env[k] = ip.wrap(sh.value)
    if con.requires is not None:
        req = z3.simplify(clause_bool(ip, con.requires, env, f"{qn}#requires"))
        if z3.is_false(req) and f is not None:
            # the contract does not cover this call (its precondition is plainly false here): use the body instead
            return ip.call_function(f, args, kwargs, force_inline=True)
        ip.path.oblige(f"call {qn}#requires", req, kind="requires")
    # modifies: the listed objects / attributes must be writable in the caller's frame; listed attributes are havoc'd
    for fname, sh in con.init_fields.items():
        selfv = env[next(iter(env))]
        if callable(sh) and not hasattr(sh, "make"):       # the attribute is an argument's object itself (identity)
            selfv.attrs[fname] = eval_clause(ip, sh, env, f"{qn}#field[{fname}]")
        else:
            selfv.attrs[fname] = sh.make(ip, f"new_{fname}") if hasattr(sh, "make") else ip.wrap(sh)
    snapshots = {}
    for m in (con.modifies if modifies_applies(ip, con, node, env) else ()):
        pname = m.split(".", 1)[0]
        obj = env.get(pname)
        if isinstance(obj, SObj) and "." in m:
            attr = m.split(".", 1)[1]
            if attr in obj.attrs:
                snapshots[m] = obj.attrs[attr]          # old["param.attr"] in the ensures clause
            if not obj.fresh and (obj.oid, attr) not in ip.modifies_ok and (obj.oid, "*") not in ip.modifies_ok:
                ip.frame_violation(f"call of {qn} modifies {obj.name}.{attr}")
            prev = obj.attrs.get(attr)
            # the new value keeps the representation kind of the old one (a sequence stays a sequence)
            obj.attrs[attr] = ZSeq(V.fresh(f"{pname}.{attr}'", V.VS), prev.kind) if isinstance(prev, ZSeq) else (
                LList(None, V.fresh(f"{pname}.{attr}'", V.VS), fresh=True) if isinstance(prev, LList) else Z(V.fresh(f"{pname}.{attr}'")))
        elif obj is not None and not (_attr_writable(ip, obj, m.split(".", 1)[1]) if "." in m else is_writable(ip, obj)):
            ip.frame_violation(f"call of {qn} modifies its argument `{m}`, which is not fresh in the caller")
    old = {k: v for k, v in env.items()}
    old.update(snapshots)
    # exceptional outcomes
    if con.raises:
        conds = [(k, clause_bool(ip, c, env, f"{qn}#raises[{k}]") if callable(c) else z3.BoolVal(bool(c))) for k, c in con.raises.items()]
        ip.guard(conds)
    from .contracts import Shape, AnyVal
    sh = con.returns if con.returns is not None else AnyVal()
    result = sh.make(ip, f"res_{qn.split(':')[-1]}") if isinstance(sh, Shape) else ip.wrap(sh)
    for fname, pname in getattr(con, "result_aliases", {}).items():      # result.<field> is the argument object itself
        result.attrs[fname] = env[pname]
    if con.fresh_result and isinstance(result, Z):
        from .builtins_model import FreshZ
        result = FreshZ(result.t, result.cls, False)      # a new outer object / container; what it holds is shared
    if con.ensures is not None:
        env2 = dict(env)
        env2["result"] = result
        env2["old"] = LDict([(C(k), v) for k, v in old.items()])
        ip.path.assume(clause_bool(ip, con.ensures, env2, f"{qn}#ensures", mode="assume"))
    ip.assumptions_used.add(f"contract of {qn} ({'assumed' if con.assumed else 'proved separately'}) used at a call site")
    return result


def apply_function_value(ip, fz, args, kwargs):
    """f(*args, **kwargs) where f is a symbolic function value: the result is ApplyFn(f, args, kwargs) and the
    call raises according to ApplyErr; the exception envelope and result type come from the contracts of the
    finite family the value ranges over (each member's contract is proved separately)."""
    from .interp import PyRaise, StarArgs
    from .comp import KIND_CODE
    t = fz.t
    fid = V.Val.fid(t)
    pos = []
    for a in args:
        if isinstance(a, StarArgs):
            pos.append(ip.seq_of(a.v) if not isinstance(a.v, Z) else V.seq_items(a.v.t))
        else:
            pos.append(z3.Unit(ip.to_z(a)))
    pseq = z3.Concat(*pos) if len(pos) > 1 else (pos[0] if pos else z3.Empty(V.VS))
    kw = dict(kwargs)
    star = kw.pop("**", None)
    if star is not None:
        if kw:
            raise Unsupported("symbolic ** together with explicit keywords")
        kwv = ip.to_z(star)
    else:
        kwv = ip.to_z(LDict([(C(k), v) for k, v in kw.items()]))
    ip.guard([("TypeError", z3.Not(V.is_func(t)))])
    fam = FUNC_FAMILIES[0] if FUNC_FAMILIES else None
    if fam is None:
        raise Unsupported("call of a symbolic function value without a declared family")
    ids = [ip.program.func_id(ip.program.resolve(n)) for n in fam["members"]]
    ip.path.assume(z3.Or([fid == i for i in ids]))
    code = ApplyErr(fid, pseq, kwv)
    kinds = fam["raises"]
    ip.path.assume(z3.Or([code == 0] + [code == KIND_CODE[k] for k in kinds]))
    ip.guard([(k, code == KIND_CODE[k]) for k in kinds])
    res = ApplyFn(fid, pseq, kwv)
    if fam.get("result_is_bool"):
        ip.path.assume(V.is_bool(res))
    ip.assumptions_used.add(f"call of a function value: ranges over family '{fam['name']}' ({len(ids)} members); envelope "
                            f"raises⊆{kinds} and bool result taken from the members' contracts")
    return Z(res)
