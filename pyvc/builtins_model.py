"""Models of the builtins and library functions the valida code calls, on symbolic operands.
All-concrete calls are delegated to CPython.  Each model is an assumed contract on a dependency
(DESIGN.md §9 item 4); `interp.assumptions_used` records the ones a run relied on."""
import builtins as _b
import copy as _copy
import enum
import inspect
import operator

import z3
from .engine import RLIMIT_PER_MS

from . import vals as V
from .sym import (Z, C, LList, LTuple, LDict, LSet, SObj, BoundMethod, Closure, BuiltinMethod, ZBool, ZInt, ZSeq,
                  Unsupported)


def _concretize(ip, a):
    """A concrete bound classmethod / function value as the real Python object (so that inspect etc. can be run)."""
    if isinstance(a, BoundMethod) and isinstance(a.self_val, C):
        import types as _t
        return C(_t.MethodType(a.func, a.self_val.v))
    return a


def _all_concrete(args, kwargs):
    return all(isinstance(a, C) for a in args) and all(isinstance(a, C) for a in kwargs.values())


def call_builtin(ip, f, args, kwargs):
    from .interp import PyRaise, ExcVal, StarArgs, ConcreteIter
    name = getattr(f, "__name__", None) or repr(f)
    mod = getattr(f, "__module__", None)
    args = [_concretize(ip, a) for a in args]
    if f is _b.zip and len(args) == 1 and isinstance(args[0], StarArgs):
        return _zip_star(ip, args[0].v)
    if any(isinstance(a, StarArgs) for a in args):
        if getattr(ip, "frame_only", False):
            return Z(V.fresh(f"ext_{name}"))
        raise Unsupported(f"builtin {name} with symbolic *args")

    # ---- pure builtins on concrete operands: CPython itself
    if _all_concrete(args, kwargs) and f not in (_copy.copy, _copy.deepcopy, _b.sorted, _b.print, _b.iter, _b.list, _b.dict,
                                                  _b.tuple, _b.set) and not inspect.isclass(f) or (
            inspect.isclass(f) and issubclass(f, enum.Enum) and _all_concrete(args, kwargs)):
        try:
            return ip.wrap(f(*[a.v for a in args], **{k: v.v for k, v in kwargs.items()}))
        except Exception as e:
            kind = type(e).__name__
            raise PyRaise(kind if kind in V.EXC else "Exception", msg=str(e))

    if name == "get" and isinstance(getattr(f, "__self__", None), dict) and args and isinstance(args[0], C):
        # constant_dict.get(constant_key, default) with a default that is not a constant
        d = f.__self__
        try:
            if args[0].v in d:
                return ip.wrap(d[args[0].v])
        except TypeError:
            raise PyRaise("TypeError", msg="unhashable key")
        return args[1] if len(args) > 1 else C(None)
    if name == "join" and isinstance(getattr(f, "__self__", None), str) and len(args) == 1:
        # sep.join(<symbolic sequence>): an uninterpreted string; TypeError unless every item is a str (decided pointwise
        # for a comprehension whose element expression is a string, otherwise left open)
        from .comp import comp_element_function
        seq = ip.iter_seq(args[0])
        ef = comp_element_function(seq)
        ok = False
        if ef is not None:
            sv = z3.Solver()
            sv.set("timeout", 3000)
            sv.set("rlimit", RLIMIT_PER_MS * (3000))
            sv.add(z3.Not(V.is_str(ef)))
            ok = sv.check() == z3.unsat
        if not ok:
            ip.guard([("TypeError", z3.Function("U_join_err", V.VS, V.B)(seq))])
        return Z(V.VStr(z3.Function("U_join", V.S, V.VS, V.S)(z3.StringVal(f.__self__), seq)))
    if f is _b.isinstance:
        return _isinstance(ip, args[0], args[1])
    if f is _b.issubclass and _all_concrete(args, kwargs):
        return C(issubclass(args[0].v, args[1].v))
    if f is _b.len:
        return _len(ip, args[0])
    if f is _b.type and len(args) == 1:
        return _type(ip, args[0])
    if f is _b.bool:
        t = ip.z_truth(args[0]) if args else False
        return C(t) if isinstance(t, bool) else ZBool(t)
    if f is _b.abs:
        val, errs = V.abs_parts(ip.to_z(args[0]))
        ip.guard(errs)
        return Z(val)
    if f is _b.range:
        if len(args) == 1:
            args = [C(0), args[0]]
        if len(args) == 2 and all(isinstance(a, (C, ZInt)) for a in args) and any(isinstance(a, ZInt) for a in args):
            return Z(V.VRange(ip.as_int(args[0]), ip.as_int(args[1])))
        if len(args) == 2:
            val, errs = V.range_parts(ip.to_z(args[0]), ip.to_z(args[1]))
            ip.guard(errs)
            return Z(val)
        raise Unsupported("range with step")
    if f in (_b.any, _b.all, _b.sum):
        return _fold(ip, f, args[0])
    if f is _b.list:
        if not args:
            return LList([])
        return _to_list(ip, args[0])
    if f is _b.tuple:
        if not args:
            return LTuple([])
        items = ip.try_iter_concrete(args[0]) if not isinstance(args[0], Z) else None
        if items is not None:
            return LTuple(items)
        return ZSeq(ip.iter_seq(args[0]), "tuple")
    if f is _b.dict:
        if not args and not kwargs:
            return LDict([])
        if args and isinstance(args[0], (LDict,)) or (args and isinstance(args[0], C) and isinstance(args[0].v, dict)):
            return LDict(ip.dict_pairs(args[0]) + [(C(k), v) for k, v in kwargs.items()])
        if args and isinstance(args[0], Z):
            zo = args[0].t
            ip.guard([("TypeError", z3.Not(z3.Or(V.is_dict(zo), V.is_seq(zo)))), ("ValueError", z3.And(V.is_seq(zo), z3.Length(V.seq_items(zo)) > 0))])
            ip.path.assume(V.is_dict(zo))
            return FreshZ(zo, None, False)          # a shallow copy: same value, fresh identity
        if args:
            # dict(<iterable of key/value pairs>) with a concrete spine (e.g. dict(zip(names, values)))
            items = ip.try_iter_concrete(args[0])
            if items is not None:
                pairs = []
                for it in items:
                    kv = ip.try_iter_concrete(it) if not isinstance(it, Z) else None
                    if kv is None or len(kv) != 2:
                        raise Unsupported("dict(...) of items that are not concrete pairs")
                    pairs.append((kv[0], kv[1]))
                return LDict(ip.merge_pairs(pairs) + [(C(k), v) for k, v in kwargs.items()])
        raise Unsupported("dict(...) of this argument")
    if f is _b.set:
        if not args:
            return LSet(z3.Empty(V.VS))
        seq = ip.iter_seq(args[0]) if ip.try_iter_concrete(args[0]) is None else V.mk_seq([ip.to_z(i) for i in ip.try_iter_concrete(args[0])])
        # set(x) raises TypeError for unhashable elements: under-specified through U_hashable on the whole sequence
        ip.guard([("TypeError", z3.Not(AllHashable(seq, z3.Length(seq))))])
        return LSet(seq)
    if f is _b.str:
        if not args:
            return C("")
        a = args[0]
        if isinstance(a, C):
            return C(str(a.v))
        za = ip.to_z(a)
        ip.assumptions_used.add("str(x) of a non-string symbolic value is an uninterpreted total function")
        return Z(z3.If(V.is_str(za), za, V.VStr(V.U_repr(za))))
    if f is _b.repr:
        if isinstance(args[0], C):
            return C(repr(args[0].v))
        ip.assumptions_used.add("repr(x) is an uninterpreted total function")
        return Z(V.VStr(V.U_repr(ip.to_z(args[0]))))
    if f is _b.int or f is _b.float:
        a = args[0]
        za = ip.to_z(a)
        ip.assumptions_used.add(f"{name}(str) is under-specified: succeeds on numeric operands, ValueError otherwise for strings is uninterpreted")
        ok = (IntOfOk if f is _b.int else FloatOfOk)(za)
        ip.guard([("TypeError", z3.Not(z3.Or(V.is_num(za), V.is_str(za)))), ("ValueError", z3.And(V.is_str(za), z3.Not(ok)))])
        if f is _b.int:
            return Z(z3.If(V.is_integral(za), V.VInt(V.intval(za)), z3.If(V.is_float(za), V.VInt(z3.ToInt(V.Val.r(za))), V.VInt(IntOf(za)))))
        return Z(z3.If(V.is_num(za), V.VFloat(V.num(za)), V.VFloat(FloatOf(za))))
    if f is _b.enumerate:
        items = ip.try_iter_concrete(args[0]) if not isinstance(args[0], Z) else None
        start = args[1].v if len(args) > 1 else kwargs.get("start", C(0)).v
        if items is not None:
            return ConcreteIter([LTuple([C(i + start), x]) for i, x in enumerate(items)])
        return SymEnumerate(ip.iter_seq(args[0]), start)
    if f is _b.zip:
        lists = [ip.try_iter_concrete(a) if not isinstance(a, Z) else None for a in args]
        if all(l is not None for l in lists):
            return ConcreteIter([LTuple(list(t)) for t in zip(*lists)])
        return SymZip([ip.iter_seq(a) if l is None else V.mk_seq([ip.to_z(i) for i in l]) for a, l in zip(args, lists)])
    if f is _b.iter:
        return args[0] if not isinstance(args[0], C) else ConcreteIter(ip.iter_concrete(args[0]))
    if f is _b.next:
        it = args[0]
        items = ip.try_iter_concrete(it) if not isinstance(it, (Z, SymZip, SymEnumerate)) else None
        if items is not None:
            if not items:
                raise PyRaise("StopIteration")
            return items[0]
        if isinstance(it, SymZip):
            ip.guard([("StopIteration", z3.Or([z3.Length(sq) == 0 for sq in it.seqs]))])
            return LTuple([Z(sq[0]) for sq in it.seqs])
        seq = ip.iter_seq(it)
        ip.guard([("StopIteration", z3.Length(seq) == 0)])
        return Z(seq[0])
    if f is _b.sorted:
        return _sorted(ip, args, kwargs)
    if f is _b.getattr:
        if isinstance(args[1], C):
            try:
                return ip.get_attr(args[0], args[1].v)
            except PyRaise as e:
                if e.kind == "AttributeError" and len(args) > 2:
                    return args[2]
                raise
        if getattr(ip, "frame_only", False):
            methods, _ = ip.program_names()
            allc = [c for lst in methods.values() for c in lst]
            recv = args[0]
            if isinstance(recv, Z) and recv.cls is not None:
                allc = [(k, f) for (k, f) in allc if issubclass(recv.cls, k)]
            from .interp import UnknownMethod
            return UnknownMethod("<any>", args[0], allc)
        raise Unsupported("getattr with a symbolic name")
    if f is _b.hasattr:
        try:
            ip.get_attr(args[0], args[1].v)
            return C(True)
        except PyRaise as e:
            if e.kind == "AttributeError":
                return C(False)
            raise
    if f is _b.print:
        return C(None)
    if f is _copy.deepcopy or f is _copy.copy:
        return _copy_model(ip, args[0], deep=f is _copy.deepcopy)
    if mod == "warnings" and name == "warn":
        return C(None)
    if mod == "_operator" or mod == "operator":
        opn = {"and_": "BitAnd", "or_": "BitOr", "xor": "BitXor"}.get(name)
        if opn:
            return ip.binop(opn, args[0], args[1])
    if mod == "html" and name == "escape":
        ip.assumptions_used.add("html.escape(s): result contains none of < > & \" ' outside entities (assumed contract)")
        if isinstance(args[0], C):
            import html
            return C(html.escape(args[0].v))
        return Z(V.VStr(V.fresh("escaped", V.S)))
    if f is _b.max or f is _b.min:
        raise Unsupported(name)
    if getattr(ip, "frame_only", False):
        # frame-only verification: an external / builtin call returns an unknown value; it is assumed not to write to
        # valida objects or to the caller's containers (builtins used by valida that mutate - list.sort etc. - are
        # methods, handled above)
        ip.assumptions_used.add(f"external call {mod}.{name}: no effect on program objects, result unknown")
        return Z(V.fresh(f"ext_{name}"))
    if inspect.isclass(f) and issubclass(f, enum.Enum):
        raise Unsupported(f"enum {f.__name__} of a symbolic value")
    raise Unsupported(f"builtin / external function {mod}.{name}")


IntOfOk = z3.Function("IntOfOk", V.Val, V.B)
IntOf = z3.Function("IntOf", V.Val, V.I)
FloatOfOk = z3.Function("FloatOfOk", V.Val, V.B)
FloatOf = z3.Function("FloatOf", V.Val, V.R)
AllHashable = z3.RecFunction("AllHashable", V.VS, V.I, V.B)
_xs, _k = z3.Const("ah_xs", V.VS), z3.Int("ah_k")
z3.RecAddDefinition(AllHashable, [_xs, _k], z3.If(_k <= 0, z3.BoolVal(True), z3.And(AllHashable(_xs, _k - 1), V.hashable(_xs[_k - 1]))))


class SymEnumerate:
    def __init__(self, seq, start=0):
        self.seq, self.start = seq, start


class SymZip:
    def __init__(self, seqs):
        self.seqs = seqs


def _isinstance(ip, x, classes):
    from .interp import ExcVal
    cls_list = None
    if isinstance(classes, C):
        cls_list = list(classes.v) if isinstance(classes.v, tuple) else [classes.v]
    elif isinstance(classes, LTuple) and all(isinstance(i, C) for i in classes.items):
        cls_list = [i.v for i in classes.items]
    if cls_list is not None:
        if isinstance(x, C):
            return C(isinstance(x.v, tuple(cls_list)))
        if isinstance(x, SObj):
            return C(issubclass(x.cls, tuple(c for c in cls_list if inspect.isclass(c))))
        if isinstance(x, (LList,)):
            return C(list in cls_list)
        if isinstance(x, LTuple) or (isinstance(x, ZSeq) and x.kind == "tuple"):
            return C(tuple in cls_list)
        if isinstance(x, ZSeq):
            return C(list in cls_list)
        if isinstance(x, LDict):
            return C(dict in cls_list)
        if isinstance(x, LSet):
            return C(set in cls_list)
        if isinstance(x, ZBool):
            return C(bool in cls_list or int in cls_list)
        if isinstance(x, ZInt):
            return C(int in cls_list)
        if isinstance(x, (BoundMethod, Closure, BuiltinMethod, ExcVal)):
            return C(False)
        if isinstance(x, Z):
            if x.cls is not None:
                if any(inspect.isclass(c) and issubclass(x.cls, c) for c in cls_list):
                    return C(True)
                return C(False)
            zx = x.t
            tv = V.py_type_id(zx)
            alts = []
            for c in cls_list:
                if ip.program.is_ours(c):
                    subs = [k for k in ip.program.class_ids if issubclass(k, c)]
                    alts.append(z3.And(V.is_obj(zx), z3.Or([V.Val.cls(zx) == ip.program.class_id(k) for k in subs])) if subs else z3.BoolVal(False))
                else:
                    tid = V.type_id(c)
                    alts.append(z3.Or(tv == tid, z3.And(tv == V.T_BOOL, tid == V.T_INT)) if c is int else tv == tid)
            return ZBool(z3.Or(alts) if alts else z3.BoolVal(False))
    # symbolic classes (e.g. callables.is_instance(trial_datum, *classes))
    zc = ip.to_z(classes)
    val, errs = V.isinstance_parts(ip.to_z(x), zc)
    ip.guard(errs)
    return ZBool(val)


def _len(ip, x):
    from .interp import PyRaise
    if isinstance(x, C):
        try:
            return C(len(x.v))
        except TypeError as e:
            raise PyRaise("TypeError", msg=str(e))
    if isinstance(x, (LList,)):
        return C(len(x.items)) if x.concrete else ZInt(z3.Length(x.seq))
    if isinstance(x, LTuple):
        return C(len(x.items))
    if isinstance(x, LDict):
        return C(len(x.pairs))
    if isinstance(x, ZSeq):
        return ZInt(z3.Length(x.s))
    if isinstance(x, LSet):
        raise Unsupported("len of a symbolic set")
    if isinstance(x, SObj):
        f = ip.class_lookup(x.cls, "__len__")
        if f is None:
            raise PyRaise("TypeError", msg="object has no len()")
        return ip.call_function(f, [x], {})
    if isinstance(x, (ZBool, ZInt)):
        raise PyRaise("TypeError", msg="object has no len()")
    val, err = V.len_parts(ip.to_z(x))
    ip.guard([("TypeError", err)])
    return ZInt(val)


def _type(ip, x):
    if isinstance(x, C):
        return C(type(x.v))
    if isinstance(x, SObj):
        return C(x.cls)
    if isinstance(x, LList):
        return C(list)
    if isinstance(x, LTuple):
        return C(tuple)
    if isinstance(x, LDict):
        return C(dict)
    if isinstance(x, ZBool):
        return C(bool)
    if isinstance(x, ZInt):
        return C(int)
    if isinstance(x, Z) and x.cls is not None:
        return C(x.cls)
    return Z(V.VType(V.py_type_id(ip.to_z(x))))


def _to_list(ip, x):
    items = ip.try_iter_concrete(x) if not isinstance(x, (Z, SymZip, SymEnumerate)) else None
    if items is not None:
        return LList(list(items))
    if isinstance(x, SymZip):
        raise Unsupported("list(zip(...)) over symbolic sequences")
    return LList(None, ip.iter_seq(x))


def _fold(ip, f, arg):
    """any / all / sum over an already evaluated list of results (comprehension results are eager lists)."""
    items = ip.try_iter_concrete(arg) if not isinstance(arg, Z) else None
    if items is not None:
        if f is _b.sum:
            acc = C(0)
            for x in items:
                acc = ip.binop("Add", acc if not isinstance(acc, ZBool) else Z(ip.to_z(acc)), _as_num(ip, x))
            return acc
        for x in items:
            t = ip.truth(x)
            if f is _b.any and t:
                return C(True)
            if f is _b.all and not t:
                return C(False)
        return C(f is _b.all)
    seq = ip.iter_seq(arg)
    from .comp import fold_seq
    return fold_seq(ip, f.__name__, seq)


def _as_num(ip, x):
    if isinstance(x, ZBool):
        return ZInt(z3.If(x.b, z3.IntVal(1), z3.IntVal(0)))
    if isinstance(x, C) and isinstance(x.v, bool):
        return C(int(x.v))
    return x


def _sorted(ip, args, kwargs):
    xs = args[0]
    items = ip.try_iter_concrete(xs) if not isinstance(xs, Z) else None
    key = kwargs.get("key")
    if items is not None:
        keys = [ip.call(key, [i], {}) if key is not None else i for i in items]
        keys = [C(z3.simplify(k.i).as_long()) if isinstance(k, ZInt) and z3.is_int_value(z3.simplify(k.i)) else k for k in keys]
        if all(isinstance(k, C) for k in keys):
            order = sorted(range(len(items)), key=lambda i: keys[i].v, reverse=bool(kwargs.get("reverse", C(False)).v))
            return LList([items[i] for i in order])
    ip.assumptions_used.add("sorted(xs, key): stable permutation ordered by key (assumed contract); result abstracted as Sorted(xs)")
    from .comp import sorted_seq
    return sorted_seq(ip, xs, key, kwargs)


def _copy_model(ip, x, deep):
    """copy.copy / copy.deepcopy: a fresh object; fields equal (shallow) / deep-fresh structurally equal (deep)."""
    if isinstance(x, SObj):
        new = SObj(x.cls, {k: (_copy_model(ip, v, True) if deep else v) for k, v in x.attrs.items()}, fresh=True)
        return new
    if isinstance(x, LList):
        if x.concrete:
            return LList([_copy_model(ip, i, True) if deep else i for i in x.items])
        return LList(None, x.seq)
    if isinstance(x, LTuple):
        return LTuple([_copy_model(ip, i, True) if deep else i for i in x.items])
    if isinstance(x, LDict):
        return LDict([(k, _copy_model(ip, v, True) if deep else v) for k, v in x.pairs])
    if isinstance(x, C):
        v = x.v
        if isinstance(v, (list, dict, set)):
            return C(_copy.deepcopy(v) if deep else _copy.copy(v))
        return x
    if isinstance(x, Z):
        # value semantics: a (deep) copy of an immutable term is the term; identity-freshness is what matters
        # for frames, so the result is marked fresh by wrapping lists/dicts lazily when they are mutated.
        return FreshZ(x.t, x.cls, deep)
    return x


class FreshZ(Z):
    """A Z term known to be a fresh (deep) copy: mutation of it is allowed by the frame rules."""
    __slots__ = ("deep",)

    def __init__(self, t, cls=None, deep=True):
        super().__init__(t, cls)
        self.deep = deep


# =============================================================================================== methods
def call_builtin_method(ip, bm, args, kwargs):
    from .interp import PyRaise
    name, recv = bm.name, bm.recv
    if isinstance(recv, LList):
        return _list_method(ip, recv, name, args, kwargs)
    if isinstance(recv, LDict):
        return _ldict_method(ip, recv, name, args, kwargs)
    if isinstance(recv, (LTuple,)):
        raise PyRaise("AttributeError", msg=f"tuple.{name}")
    if isinstance(recv, ZSeq):
        raise PyRaise("AttributeError", msg=f"sequence.{name}")
    if isinstance(recv, (ZBool, ZInt)):
        raise PyRaise("AttributeError", msg=name)
    if isinstance(recv, LSet):
        raise Unsupported(f"set.{name}")
    zo = recv.t
    if name in ("keys", "values", "items", "get", "pop", "setdefault", "update"):
        # the type object `dict` itself has these attributes: calling one without an instance is a TypeError, not an
        # AttributeError (CPython cross-check, pyvc/crosscheck.py)
        is_dict_type = z3.And(V.is_type(zo), V.Val.tid(zo) == V.T_DICT)
        ip.guard([("TypeError", is_dict_type), ("AttributeError", z3.And(z3.Not(V.is_dict(zo)), z3.Not(is_dict_type)))])
        if name == "keys":
            return ZSeq(V.Val.dkeys(zo), "keys")
        if name == "values":
            return ZSeq(V.Val.dvals(zo), "values")
        if name == "items":
            return SymZip([V.Val.dkeys(zo), V.Val.dvals(zo)])
        if name == "get":
            zk = ip.to_z(args[0])
            ip.guard([("TypeError", z3.Not(V.hashable(zk)))])
            idx = V.dict_index(zo, zk)
            default = ip.to_z(args[1]) if len(args) > 1 else V.VNone
            return Z(z3.If(idx >= 0, V.Val.dvals(zo)[idx], default))
        from .builtins_model import symbolic_dict_mutation
        return symbolic_dict_mutation(ip, recv, name, args, kwargs)
    if name in ("lower", "upper", "strip", "split", "startswith", "endswith", "replace", "format", "join", "title"):
        ip.guard([("AttributeError", z3.Not(V.is_str(zo)))])
        s = V.Val.s(zo)
        ip.assumptions_used.add(f"str.{name} on a symbolic string is an uninterpreted function (concrete instances exact)")
        if name == "startswith":
            return ZBool(z3.PrefixOf(V.Val.s(ip.to_z(args[0])), s))
        if name == "endswith":
            return ZBool(z3.SuffixOf(V.Val.s(ip.to_z(args[0])), s))
        if name == "split":
            if getattr(ip, "frame_only", False):
                return LList(None, V.fresh("split", V.VS), fresh=True)
            raise Unsupported("str.split on a symbolic string")
        f = z3.Function(f"str_{name}", V.S, *([V.S] * len(args)), V.S)
        return Z(V.VStr(f(s, *[V.Val.s(ip.to_z(a)) for a in args])))
    if name in ("append", "extend", "insert", "remove", "clear", "sort", "reverse"):
        ip.guard([("AttributeError", z3.Not(V.is_list(zo)))])
        if not isinstance(recv, FreshZ) and id(recv) not in ip.modifies_ok:
            ip.frame_violation(f"list.{name} on a list that existed before this call")
        if getattr(ip, "frame_only", False):
            return C(None)
        raise Unsupported(f"list.{name} on a symbolic list value")
    # any other attribute of a JSON-like value does not exist
    ip.guard([("AttributeError", z3.Not(z3.Or(V.is_obj(zo), V.Val.is_VOpaque(zo))))])
    if getattr(ip, "frame_only", False):
        # not a method of any program class: the receiver is an external object (yaml loader, regex, signature ...)
        ip.assumptions_used.add(f"method .{name}() of an external object: no effect on program objects, result unknown")
        return Z(V.fresh(f"ext_{name}"))
    raise Unsupported(f"method {name} on a symbolic object of unknown class")


def symbolic_dict_mutation(ip, recv, name, args, kwargs):
    if not isinstance(recv, FreshZ) and id(recv) not in ip.modifies_ok:
        ip.frame_violation(f"dict.{name} on a mapping that existed before this call")
    if getattr(ip, "frame_only", False):
        return Z(V.fresh(f"dict_{name}"))
    raise Unsupported(f"dict.{name} on a symbolic mapping")


def symbolic_setitem(ip, obj, key, v):
    """obj[key] = v on a symbolic container value: allowed only on fresh copies (functional update of the term)."""
    if not isinstance(obj, FreshZ) and id(obj) not in ip.modifies_ok:
        ip.frame_violation("item assignment into a container that existed before this call")
    if getattr(ip, "frame_only", False):
        return None
    raise Unsupported("item assignment into a symbolic container (needs the Update spec function)")


def _list_method(ip, lst, name, args, kwargs):
    from .interp import PyRaise
    if name == "append":
        ip.check_mutable(lst, "append")
        if lst.concrete:
            lst.items = lst.items + [args[0]]
        else:
            lst.seq = z3.Concat(lst.seq, z3.Unit(ip.to_z(args[0])))
        return C(None)
    if name == "extend":
        ip.list_extend(lst, args[0])
        return C(None)
    if name == "pop":
        ip.check_mutable(lst, "pop")
        if lst.concrete:
            i = args[0].v if args else -1
            try:
                x = lst.items[i]
            except IndexError:
                raise PyRaise("IndexError")
            lst.items = [y for j, y in enumerate(lst.items) if j != (i % len(lst.items))]
            return x
        raise Unsupported("pop on a symbolic list")
    if name == "copy":
        return LList(list(lst.items)) if lst.concrete else LList(None, lst.seq)
    if name == "index" or name == "count" or name == "sort" or name == "insert" or name == "remove" or name == "reverse":
        ip.check_mutable(lst, name) if name in ("sort", "insert", "remove", "reverse") else None
        raise Unsupported(f"list.{name}")
    raise PyRaise("AttributeError", msg=f"list.{name}")


def _ldict_method(ip, d, name, args, kwargs):
    from .interp import PyRaise, ConcreteIter
    if name == "items":
        return ConcreteIter([LTuple([k, v]) for k, v in d.pairs])
    if name == "keys":
        return ConcreteIter([k for k, _ in d.pairs])
    if name == "values":
        return ConcreteIter([v for _, v in d.pairs])
    if name == "get":
        for k, v in d.pairs:
            r = ip.py_eq(k, args[0])
            if r is True or (r is not False and ip.path.branch(r)):
                return v
        return args[1] if len(args) > 1 else C(None)
    if name == "pop":
        ip.check_mutable(d, "pop")
        for i, (k, v) in enumerate(d.pairs):
            r = ip.py_eq(k, args[0])
            if r is True or (r is not False and ip.path.branch(r)):
                del d.pairs[i]
                return v
        if len(args) > 1:
            return args[1]
        raise PyRaise("KeyError", payload=args[0])
    if name == "update":
        ip.check_mutable(d, "update")
        for k, v in ip.dict_pairs(args[0]):
            ip.set_item(d, k, v)
        return C(None)
    if name == "copy":
        return LDict(list(d.pairs))
    if name == "setdefault":
        ip.check_mutable(d, "setdefault")
        for k, v in d.pairs:
            if ip.py_eq(k, args[0]) is True:
                return v
        d.pairs.append((args[0], args[1] if len(args) > 1 else C(None)))
        return d.pairs[-1][1]
    raise PyRaise("AttributeError", msg=f"dict.{name}")


def call_symbolic_function(ip, f, args, kwargs):
    """Call of a function *value* that is symbolic (e.g. self.func(trial_datum, *args, **kwargs)):
    resolved through the contract table of the finite set of functions it may denote."""
    from .contract_apply import apply_function_value
    return apply_function_value(ip, f, args, kwargs)


ProjSeq = z3.RecFunction("ProjSeq", V.VS, V.I, V.I, V.VS)     # [item[c] for item in xs[i:]]
_ps, _pc, _pi = z3.Const("pj_s", V.VS), z3.Int("pj_c"), z3.Int("pj_i")
_pbody = z3.If(z3.Or(_pi < 0, _pi >= z3.Length(_ps)), z3.Empty(V.VS), z3.Concat(
    z3.Unit(V.seq_items(_ps[_pi])[_pc]), ProjSeq(_ps, _pc, _pi + 1)))
z3.RecAddDefinition(ProjSeq, [_ps, _pc, _pi], _pbody)
from . import specfun as _specfun
_specfun.register_feasibility_only(ProjSeq, [_ps, _pc, _pi], _pbody)


def _zip_star(ip, v):
    """zip(*xs): transposition.  For xs = d.items() the two columns are the key and value sequences; for a symbolic
    sequence of pairs the columns are its projections (an instance of the map-comprehension scheme)."""
    from .interp import ConcreteIter, PyRaise
    if isinstance(v, SymZip):
        n = z3.Length(v.seqs[0])
        if ip.path.branch(n > 0):
            return ConcreteIter([ZSeq(s, "tuple") for s in v.seqs])
        return ConcreteIter([])
    items = ip.try_iter_concrete(v) if not isinstance(v, Z) else None
    if items is not None:
        cols = [ip.try_iter_concrete(i) for i in items]
        if all(c is not None for c in cols):
            return ConcreteIter([LTuple(list(t)) for t in zip(*cols)])
    seq = ip.iter_seq(v)
    n = z3.Length(seq)
    if not ip.path.branch(n > 0):
        return ConcreteIter([])
    # every item must be a sequence of one common length; valida only transposes (value, path) pairs
    ip.assumptions_used.add("zip(*xs) over a symbolic sequence: the items are pairs (value, path)")
    cols = []
    for c in range(2):
        col = ProjSeq(seq, z3.IntVal(c), z3.IntVal(0))
        ip.path.assume(z3.Length(col) == n)
        ip.path.add_qfact(lambda j, col=col, c=c: z3.Implies(z3.And(j >= 0, j < n), col[j] == V.seq_items(seq[j])[c]))
        cols.append(ZSeq(col, "tuple"))
    return ConcreteIter(cols)
