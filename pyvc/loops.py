"""`for` loops over symbolic sequences: inductive invariants as cut points (DESIGN.md §2.6).

Obligations: the invariant holds on entry (k = 0); an arbitrary iteration k (state havoc'd, invariant
assumed) re-establishes it for k + 1; after the loop the invariant at k = len(xs) is what is known.
Invariants are keyed by the loop's structural signature, receive the iteration count `k`, the iterated
sequence `xs` and any locals they name, and speak about the abstraction, not incidental temporaries.
"""
import ast

import z3

from . import vals as V
from .engine import PathEnd
from .program import loop_key
from .sym import Z, C, LList, LTuple, LDict, SObj, ZBool, ZInt, ZSeq, Unsupported


def assigned_names(stmts):
    out = set()
    for s in stmts:
        for n in ast.walk(s):
            if isinstance(n, ast.Name) and isinstance(n.ctx, ast.Store):
                out.add(n.id)
    return out


def mutated_names(stmts):
    """Names whose list/dict value is mutated through a method call or item/attribute store."""
    out = set()
    for s in stmts:
        for n in ast.walk(s):
            if isinstance(n, ast.Call) and isinstance(n.func, ast.Attribute) and isinstance(n.func.value, ast.Name) and n.func.attr in (
                    "append", "extend", "pop", "update", "insert", "remove", "clear", "setdefault"):
                out.add(n.func.value.id)
            if isinstance(n, (ast.Subscript, ast.Attribute)) and isinstance(n.ctx, ast.Store) and isinstance(n.value, ast.Name):
                out.add(n.value.id)
            if isinstance(n, ast.AugAssign) and isinstance(n.target, ast.Name):
                out.add(n.target.id)
    return out


def havoc(ip, v, name):
    if isinstance(v, LList):
        return LList(None, V.fresh(name, V.VS), fresh=v.fresh)
    if isinstance(v, ZBool) or (isinstance(v, C) and isinstance(v.v, bool)):
        return ZBool(V.fresh(name, V.B))
    if isinstance(v, ZInt) or (isinstance(v, C) and isinstance(v.v, int)):
        return ZInt(V.fresh(name, V.I))
    if isinstance(v, ZSeq):
        return ZSeq(V.fresh(name, V.VS), v.kind)
    if isinstance(v, Z):
        from .builtins_model import FreshZ
        if isinstance(v, FreshZ):
            return FreshZ(V.fresh(name), v.cls, v.deep)
        return Z(V.fresh(name), v.cls)
    if isinstance(v, SObj):
        return v          # object identity is kept; mutated attributes are havoc'd through the invariant's modifies list
    return Z(V.fresh(name))


def iter_elements(ip, it):
    """(seq, make_element(k)) for iterating a symbolic iterable."""
    from .builtins_model import SymEnumerate, SymZip
    if isinstance(it, SymEnumerate):
        seq = it.seq
        return seq, lambda k: LTuple([ZInt(k + it.start), Z(seq[k])])
    if isinstance(it, SymZip):
        n = it.seqs[0]
        return n, lambda k: LTuple([Z(s[k]) for s in it.seqs]), it.seqs
    if isinstance(it, SObj) and "FilteredDataLike" in [c.__name__ for c in it.cls.__mro__]:
        # FilteredDataLike.__iter__: `for idx, _ in enumerate(self.result): yield FilteredDataItem(self, idx)`
        ip.check_generator(it.cls)
        seq = ip.seq_of(it.attrs["result"])
        import valida.data as _vd
        item_cls = ip.program.modules["valida.data"].FilteredDataItem
        return seq, lambda k: ip.call_class(item_cls, [it, ZInt(k)], {})
    seq = ip.iter_seq(it)
    return seq, lambda k: Z(seq[k])


def symbolic_for(ip, node, it, fr):
    from .contract_apply import clause_bool
    from .interp import BreakSig, ContinueSig
    key = loop_key(node)
    con = ip.contracts.get(ip.verifying) if ip.verifying else None
    inv = None
    owner = fr.name
    c2 = ip.contracts.get(owner)
    if ip.verifying and ip.verifying.split("#")[0] == owner and ip.verifying in ip.contracts:
        c2 = ip.contracts[ip.verifying]          # a second contract of the same function (tagged) brings its own invariants
    if c2 is not None and key in c2.invariants and not getattr(ip, "frame_only", False):
        inv = c2.invariants[key]
    if inv is None:
        if getattr(ip, "frame_only", False):
            return trivial_for(ip, node, it, fr)
        # a loop the contract has no invariant for (the code was restructured, or a helper gained a loop): it is cut with
        # the invariant `True`; obligations that then fail without a replayable input are reported as undecided
        ip.path.__dict__.setdefault("no_invariant", []).append(f"`{key}` in {owner}")
        return trivial_for(ip, node, it, fr)
    r = iter_elements(ip, it)
    seq, elem = r[0], r[1]
    n = z3.Length(seq)
    if len(r) == 3:      # zip: the shortest sequence bounds the iteration
        for s in r[2][1:]:
            n = z3.If(z3.Length(s) < n, z3.Length(s), n)
    modified = sorted((assigned_names(node.body) | mutated_names(node.body) | assigned_names([node.target])) & set(fr.env) |
                      (assigned_names(node.body) - set(fr.env)))

    def inv_at(k, mode="goal"):
        env = dict(fr.env)
        env["k"] = ZInt(k)
        env["xs"] = ZSeq(seq, "list")
        return clause_bool(ip, inv, _pick(ip, inv, env), f"{owner}#inv[{key}]", mode=mode)

    # 1. holds on entry
    ip.path.oblige(f"{owner}#inv-entry[{key}]", inv_at(z3.IntVal(0)), kind="invariant")
    which = ip.path.choose([True, True], structural=True)
    # havoc everything the body may change
    for name in modified:
        if name in fr.env:
            fr.env[name] = havoc(ip, fr.env[name], name)
    if which == 0:
        # 2. an arbitrary iteration preserves the invariant
        k = V.fresh("k", V.I)
        ip.path.assume(z3.And(k >= 0, k < n))
        for inst in ip.path.instances(k):          # quantified facts known so far, at the iteration index
            ip.path.assume(inst)
        ip.path.assume(inv_at(k, "assume"))
        ip.assign_target(node.target, elem(k), fr)
        try:
            ip.exec_block(node.body, fr)
        except ContinueSig:
            pass
        except BreakSig:
            return            # leaves the loop from an arbitrary iteration: state is what the iteration produced
        ip.path.oblige(f"{owner}#inv-preserved[{key}]", inv_at(k + 1), kind="invariant")
        raise PathEnd()
    # 3. after the loop
    ip.path.assume(inv_at(n, "assume"))
    ip.exec_block(node.orelse, fr)


def _pick(ip, fn, env):
    node = ip.program.node_of(fn)
    names = [a.arg for a in node.args.args]
    out = {}
    for nme in names:
        if nme in env:
            out[nme] = env[nme]
        elif nme.startswith("old_") and nme[4:] in getattr(ip, "entry_env", {}):
            out[nme] = ip.entry_env[nme[4:]]          # value of a parameter on entry to the function under proof
        else:
            raise Unsupported(f"invariant names unknown local {nme!r}")
    return out


def trivial_for(ip, node, it, fr):
    """Frame-only verification: the loop is cut with the invariant `True` (every variable the body may change is
    havoc'd); frame obligations are independent of values, so this loses nothing for them."""
    from .interp import BreakSig, ContinueSig
    r = iter_elements(ip, it)
    seq, elem = r[0], r[1]
    modified = sorted((assigned_names(node.body) | mutated_names(node.body) | assigned_names([node.target])) & set(fr.env))
    which = ip.path.choose([True, True], structural=True)
    for name in modified:
        fr.env[name] = havoc(ip, fr.env[name], name)
    if which == 0:
        k = V.fresh("k", V.I)
        ip.path.assume(z3.And(k >= 0, k < z3.Length(seq)))
        ip.assign_target(node.target, elem(k), fr)
        try:
            ip.exec_block(node.body, fr)
        except ContinueSig:
            pass
        except BreakSig:
            return
        raise PathEnd()
    ip.exec_block(node.orelse, fr)
