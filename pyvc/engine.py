"""Path exploration by decision replay, obligations, and their discharge.

A function body is executed by the interpreter (pyvc/interp.py) once per path.  Every fork point asks
`Path.choose(conds)`; a run follows its script of earlier decisions and, past its end, takes the first
feasible alternative and queues the others.  Fresh-symbol names are deterministic per run, so a prefix
re-executes identically.  Obligations (name, path condition, goal) are collected and discharged by z3:
valid iff pc ∧ ¬goal is unsat.  `unknown` is never a failure.
"""
import time

import z3

# z3 can spin inside recursive-function propagation without looking at its wall-clock timeout; the resource limit
# is honoured there (and is deterministic, so verdicts do not depend on machine load)
RLIMIT_PER_MS = 1500

# (a watchdog thread calling Z3_interrupt was tried and removed: it neither stopped the spinning check nor is it safe -
# z3 objects released by the garbage collector on the other thread corrupted the context; the process-level kill of
# pyvc/driver.py remains the last resort)

from . import vals as V


class PathEnd(Exception):
    """This path ends here (infeasible, or cut after a loop-step obligation)."""


class Obligation:
    def __init__(self, name, pc, goal, kind="ensures", info=None):
        self.name, self.pc, self.goal, self.kind, self.info = name, list(pc), goal, kind, info or {}
        self.status, self.model, self.solver_s, self.backend, self.reason = None, None, 0.0, None, None

    def smt2(self):
        s = z3.Solver()
        s.add(*self.pc)
        s.add(z3.Not(self.goal))
        return s.to_smt2()


class Path:
    def __init__(self, engine, script):
        self.engine, self.script = engine, list(script)
        self.trace, self.pc, self.obligations = [], [], []
        self.notes = []
        self._solver, self._synced = None, 0
        self._atoms, self._atoms_synced = set(), 0
        self.qfacts = []        # universally quantified facts as functions index-term -> z3 Bool (instantiated at skolems)

    def add_qfact(self, f):
        self.qfacts.append(f)

    def instances(self, idx):
        return [f(idx) for f in self.qfacts]

    def assume(self, cond):
        if isinstance(cond, bool):
            if not cond:
                raise PathEnd()
            return
        c = z3.simplify(cond)
        if z3.is_true(c):
            return
        if z3.is_false(c):
            raise PathEnd()
        self.pc.append(c)

    def feasible(self, cond):
        c = z3.simplify(cond)
        if z3.is_true(c):
            return True
        if z3.is_false(c):
            return False
        # fast path: a literal over an uninterpreted predicate atom that the path condition does not mention is
        # satisfiable either way (claiming feasibility can only add vacuous paths, never lose one)
        a = c.arg(0) if z3.is_not(c) else c
        if z3.is_app(a) and a.decl().kind() == z3.Z3_OP_UNINTERPRETED and a.num_args() > 0:
            self._sync_atoms()
            if a.get_id() not in self._atoms:
                return True
        self.engine.stats["feasibility_checks"] += 1
        # a fresh solver per query: z3's incremental mode (push/pop) was observed to spin inside
        # theory_recfun::propagate, outside the reach of the timeout
        s = z3.Solver()
        s.set("timeout", self.engine.feas_timeout_ms)
        s.set("rlimit", RLIMIT_PER_MS * (self.engine.feas_timeout_ms))
        from . import specfun
        if not hasattr(self, "_dstate"):
            self._dstate = {}
        terms, axioms = specfun.defuel(list(self.pc) + [c], 2, feasibility=True, state=self._dstate)
        s.add(*terms)
        s.add(*axioms)
        t0 = time.time()
        r = s.check()
        self.engine.stats["feasibility_s"] += time.time() - t0
        if r == z3.unknown:
            self.unsure = True          # explored although possibly infeasible: a dead end on this path is not a fault
        return r != z3.unsat

    def _sync_atoms(self):
        while self._atoms_synced < len(self.pc):
            stack = [self.pc[self._atoms_synced]]
            self._atoms_synced += 1
            while stack:
                t = stack.pop()
                if z3.is_app(t) and t.decl().kind() in (z3.Z3_OP_AND, z3.Z3_OP_OR, z3.Z3_OP_NOT, z3.Z3_OP_IMPLIES, z3.Z3_OP_ITE, z3.Z3_OP_EQ):
                    stack.extend(t.children())
                else:
                    self._atoms.add(t.get_id())
                    if z3.is_app(t) and t.num_args() and t.decl().kind() != z3.Z3_OP_UNINTERPRETED:
                        stack.extend(t.children())

    def solver(self):
        """Incremental solver kept in sync with this path's condition."""
        if self._solver is None:
            self._solver = z3.Solver()
            self._solver.set("timeout", self.engine.feas_timeout_ms)
            self._solver.set("rlimit", RLIMIT_PER_MS * self.engine.feas_timeout_ms)
            self._synced = 0
        while self._synced < len(self.pc):
            self._solver.add(self.pc[self._synced])
            self._synced += 1
        return self._solver

    def choose(self, conds, structural=False):
        """Pick one of mutually exclusive alternatives (z3 Bools; True for structural forks)."""
        idx = len(self.trace)
        if idx < len(self.script):
            c = self.script[idx]
        else:
            feas = [i for i, cnd in enumerate(conds) if structural or self.feasible(cnd)]
            if not feas:
                raise PathEnd()
            c = feas[0]
            for other in feas[1:]:
                self.engine.queue.append(self.trace + [other])
        self.trace.append(c)
        if not structural:
            self.assume(conds[c])
        return c

    def branch(self, cond):
        """Python-level bool of a z3 Bool (forks)."""
        if isinstance(cond, bool):
            return cond
        c = z3.simplify(cond)
        if z3.is_true(c):
            return True
        if z3.is_false(c):
            return False
        return self.choose([c, z3.Not(c)]) == 0

    def oblige(self, name, goal, kind="ensures", info=None):
        if isinstance(goal, bool):
            goal = z3.BoolVal(goal)
        self.obligations.append(Obligation(name, self.pc, goal, kind, info))


class Engine:
    def __init__(self, feas_timeout_ms=300, max_paths=4000):
        self.queue = []
        self.feas_timeout_ms = feas_timeout_ms
        self.max_paths = max_paths
        self.no_feasibility = False     # frame-only verification: branches are not pruned (obligations of infeasible
                                        # paths are vacuous anyway), which avoids thousands of solver calls
        self.stats = {"paths": 0, "feasibility_checks": 0, "feasibility_s": 0.0}

    def explore(self, run, nested=False, on_path=None):
        """run(path) executes one path (may raise PathEnd).  Returns the list of completed Path objects.
        Top-level explorations restart the fresh-name counter for every path (a replayed prefix then
        regenerates identical names); nested ones (comprehension bodies) never reset it."""
        self.queue = [[]]
        done = []
        while self.queue:
            script = self.queue.pop()
            if not nested:
                V.reset_fresh()
            p = Path(self, script)
            try:
                run(p)
            except PathEnd:
                pass
            done.append(p)
            if on_path is not None:
                on_path(p, len(done) - 1)
            self.stats["paths"] += 1
            if len(done) > self.max_paths:
                raise RuntimeError("path explosion")
        return done


def _split_candidates(terms):
    out, seen, visited, stack = [], set(), set(), list(terms)
    while stack:
        t = stack.pop()
        if t.get_id() in visited or not z3.is_app(t):
            continue
        visited.add(t.get_id())
        if (t.decl().kind() == z3.Z3_OP_SEQ_NTH or t.decl().name().startswith("seq.nth")) and z3.is_app(t.arg(0)) \
                and t.arg(0).decl().kind() == z3.Z3_OP_SEQ_CONCAT:
            c = z3.simplify(t.arg(1) < z3.Length(t.arg(0).arg(0)))
            if c.get_id() not in seen and not z3.is_true(c) and not z3.is_false(c) and "Length" in str(c)[:400]:
                seen.add(c.get_id())
                out.append(c)
        stack.extend(t.children())
    return out


def _conjuncts(g):
    if z3.is_and(g):
        out = []
        for c in g.children():
            out += _conjuncts(c)
        return out
    return [g]


def discharge(ob, timeout_ms=10000):
    """Decide one obligation with z3: status 'proved' | 'failed' (with model) | 'unknown'.  A conjunctive goal is
    decided conjunct by conjunct (smaller queries; the first conjunct that is not proved gives the verdict)."""
    parts = _conjuncts(z3.simplify(ob.goal)) if ob.kind != "canary" else [ob.goal]
    if len(parts) > 1:
        t0 = time.time()
        verdict = None
        for i, g in enumerate(parts):
            sub = Obligation(f"{ob.name}#c{i}", ob.pc, g, ob.kind, ob.info)
            _discharge1(sub, timeout_ms)
            ob.backend = sub.backend
            if sub.status != "proved":
                verdict = sub
                if sub.status == "failed":
                    break
        ob.solver_s = time.time() - t0
        if verdict is None:
            ob.status = "proved"
        else:
            ob.status, ob.model, ob.reason = verdict.status, verdict.model, (verdict.reason or "") + f" (conjunct {verdict.name[-3:]})"
        return ob
    return _discharge1(ob, timeout_ms)


def _discharge1(ob, timeout_ms=10000):
    """One obligation; in the thorough tier a sample of the proved ones is re-checked by an independent build of the solver
    (the Debian z3 4.8.12 binary) on the exported SMT-LIB text of exactly the query that was answered `unsat`."""
    import os
    _discharge_core(ob, timeout_ms)
    rate = int(os.environ.get("PYVC_SECOND_OPINION", "0"))
    if rate and ob.status == "proved" and ob.kind != "canary" and getattr(ob, "_query", None) is not None \
            and (__import__('zlib').crc32(ob.name.encode()) % 100) < rate and os.path.exists("/usr/bin/z3"):
        import subprocess, tempfile
        with tempfile.NamedTemporaryFile("w", suffix=".smt2", delete=False, dir=os.environ.get("PYVC_TMP", None)) as fh:
            fh.write(ob._query)
            path = fh.name
        try:
            out = subprocess.run(["/usr/bin/z3", "-T:20", path], capture_output=True, text=True, timeout=40).stdout.split("\n")[0].strip()
        except Exception as e:
            out = "error"
        finally:
            os.unlink(path)
        ob.second_opinion = out or "no-answer"
    ob._query = None
    return ob


def _discharge_core(ob, timeout_ms=10000):
    t0 = time.time()
    r = z3.unknown
    # z3's sequence solver is unstable on identical input: an `unknown` is retried with other random seeds
    from . import specfun
    if set(specfun._DEFS) - specfun._FEAS_ONLY or specfun.FORCE_FUEL[0]:
        # spec functions by bounded unfolding (pyvc/specfun.py): only `unsat` is conclusive
        for fuel in (1, 2):
            terms, axioms = specfun.defuel(list(ob.pc) + [z3.Not(ob.goal)], fuel, feasibility=True)
            s = z3.Solver()
            s.set("timeout", max(timeout_ms // 2, 2000))
            s.set("rlimit", RLIMIT_PER_MS * (max(timeout_ms // 2, 2000)))
            s.add(*terms)
            s.add(*axioms)
            import os as _os
            if _os.environ.get("PYVC_DUMP_PRE"):
                open(_os.environ["PYVC_DUMP_PRE"], "w").write(f"; {ob.name} fuel {fuel}\n" + s.to_smt2())
            r = s.check()
            if _os.environ.get("PYVC_DUMP_OB") and r != z3.unsat:
                _d = _os.environ["PYVC_DUMP_OB"]
                open(_os.path.join(_d, f"ob{len(_os.listdir(_d))}_f{fuel}_{r}.smt2"), "w").write(f"; {ob.name}\n" + s.to_smt2())
            if not axioms:
                break                    # no spec function occurs in this obligation
            if r == z3.unknown and fuel == 2:
                # case split on the position of an element read in a concatenation (t < len(a) for (a ++ b)[t]): z3 does
                # not always find it; each case is a plain query and both must be unsat
                for cand in _split_candidates(terms)[:2]:
                    verdicts = []
                    for case in (cand, z3.Not(cand)):
                        s2 = z3.Solver()
                        s2.set("timeout", max(timeout_ms // 2, 2000))
                        s2.set("rlimit", RLIMIT_PER_MS * max(timeout_ms // 2, 2000))
                        s2.add(*terms)
                        s2.add(*axioms)
                        s2.add(case)
                        verdicts.append(s2.check())
                        if verdicts[-1] != z3.unsat:
                            break
                    if verdicts == [z3.unsat, z3.unsat]:
                        r = z3.unsat
                        break
            if r == z3.unsat or fuel == 2:
                ob.solver_s = time.time() - t0
                ob.attempts = fuel
                ob.backend = "z3-" + z3.get_version_string() + f" (spec functions unfolded to depth {fuel})"
                if r == z3.unsat:
                    ob.status = "proved"
                    import os as _os2
                    if _os2.environ.get("PYVC_SECOND_OPINION"):
                        ob._query = s.to_smt2()
                elif r == z3.sat:
                    # not provable with the definitions unfolded twice: reported like any failed obligation (the model is
                    # a counterexample candidate only; replay decides whether it is a failing input)
                    ob.status = "failed"
                    try:
                        ob.model = s.model()
                    except z3.Z3Exception:
                        ob.model = None
                else:
                    ob.status = "unknown"
                    ob.reason = s.reason_unknown()
                return ob
    for attempt, seed in enumerate((0, 7, 23)):
        s = z3.Solver()
        s.set("timeout", timeout_ms if attempt == 0 else max(timeout_ms // 2, 2000))
        s.set("rlimit", RLIMIT_PER_MS * (timeout_ms if attempt == 0 else max(timeout_ms // 2, 2000)))
        if seed:
            s.set("random_seed", seed)
        s.add(*ob.pc)
        s.add(z3.Not(ob.goal))
        r = s.check()
        if r != z3.unknown:
            break
    ob.solver_s = time.time() - t0
    ob.attempts = attempt + 1
    ob.backend = "z3-" + z3.get_version_string()
    if r == z3.unsat:
        ob.status = "proved"
        import os as _os2
        if _os2.environ.get("PYVC_SECOND_OPINION"):
            ob._query = s.to_smt2()
    elif r == z3.sat:
        ob.status = "failed"
        try:
            ob.model = s.model()
        except z3.Z3Exception:
            ob.model = None
    else:
        ob.status = "unknown"
        ob.reason = s.reason_unknown()
    return ob
