"""Contract registry and shapes (the sidecar contract language, DESIGN.md §3).

A contract is data attached to the qualified name of a real function.  Its clauses are Python
lambdas / functions in /verif/contracts/*.py and /verif/spec/*.py; they are never run natively by
the prover: their ast is interpreted by the same symbolic executor as the code under proof, and
the bounded stand-in / replay run them natively on real objects.
"""
import z3

from . import vals as V
from .sym import Z, C, LList, LTuple, LDict, SObj, ZBool, ZInt, ZSeq

REGISTRY = {}
LEMMAS = {}


class Contract:
    def __init__(self, qualname, params=None, requires=None, ensures=None, raises=None, raises_any=False, modifies=(),
                 returns=None, invariants=None, receivers=None, serves=(), inline=False, assumed=False, note="",
                 variants=None, fresh_result=False, total=False, frame_only=False, fresh_params=(), inline_at_calls=False, init_fields=None, param_names=None, result_aliases=None, witnesses=None, uses_interfaces=None, min_timeout_ms=0, fuel=False):
        self.qualname = qualname
        self.params = params or {}
        self.requires, self.ensures = requires, ensures
        self.raises = raises or {}            # kind -> condition lambda (when it MAY be raised); {} = raises nothing
        self.raises_any = raises_any          # no claim about exceptions
        self.modifies = tuple(modifies)
        self.returns = returns
        self.invariants = invariants or {}
        self.receivers = receivers
        self.serves = tuple(serves)
        self.inline = inline
        self.assumed = assumed
        self.note = note
        self.variants = variants              # list of dicts overriding params (family members)
        self.fresh_result = fresh_result
        self.total = total
        self.inline_at_calls = inline_at_calls
        self.init_fields = init_fields or {}     # __init__ contracts: attributes the call creates on `self`
        self.result_aliases = result_aliases or {}   # result field -> parameter whose object it is (identity)
        self.fuel = fuel                # send every recursive helper function by bounded unfolding (pyvc/specfun.py)
        self.min_timeout_ms = min_timeout_ms          # per-obligation solver budget this contract needs (also in the quick tier)
        self.uses_interfaces = uses_interfaces or {}   # method name -> interface key, for calls on receivers of unknown class
        self.witnesses = witnesses               # () -> [native argument dicts] tried on the real code when a counter-model
                                                 # over uninterpreted parts (opaque children) cannot be rebuilt as objects
        self.param_names = param_names           # interface contracts: [(name, default)] of the abstract method
        self.frame_only = frame_only          # only frame obligations (loops get the trivial invariant, no ensures)
        self.fresh_params = tuple(fresh_params)  # parameters that are fresh objects (self of __init__)


def contract(qualname, **kw):
    c = Contract(qualname, **kw)
    REGISTRY[qualname] = c
    return c


# ------------------------------------------------------------------------------------------ shapes
class Shape:
    def make(self, ip, name):
        raise NotImplementedError


class AnyVal(Shape):
    def make(self, ip, name):
        return Z(V.fresh(name))


class JsonVal(Shape):
    """A JSON/YAML-like document value: None, bool, int, float, str, list, dict (nested); no objects, types, functions."""

    def make(self, ip, name):
        t = V.fresh(name)
        ip.path.assume(z3.Not(z3.Or(V.is_obj(t), V.is_type(t), V.is_func(t), V.Val.is_VOpaque(t), V.is_set(t), V.is_range(t),
                                    V.is_tuple(t))))
        return Z(t)


class Bool(Shape):
    def make(self, ip, name):
        return ZBool(V.fresh(name, V.B))


class Int(Shape):
    def make(self, ip, name):
        return ZInt(V.fresh(name, V.I))


class Str(Shape):
    def make(self, ip, name):
        return Z(V.VStr(V.fresh(name, V.S)))


class ListOf(Shape):
    def __init__(self, fresh=False):
        self.fresh = fresh

    def make(self, ip, name):
        return LList(None, V.fresh(name, V.VS), fresh=self.fresh)


class TupleOf(Shape):
    """A tuple of unknown length (symbolic spine); with `elem_cls`, every element is an object of that class with
    unknown fields (the type invariant of the container: elements drawn from it carry the class hint, as ObjVal does)."""

    def __init__(self, elem_cls=None):
        self.elem_cls = elem_cls

    def make(self, ip, name):
        s = V.fresh(name, V.VS)
        if self.elem_cls is not None:
            # type invariant of the container, as ObjVal states it for one value: every element is an object value of the class
            j = z3.Int(f"{name}!j")
            e = s[j]
            ip.path.assume(z3.ForAll([j], z3.Implies(z3.And(j >= 0, j < z3.Length(s)), z3.And(
                V.is_obj(e), V.Val.cls(e) == ip.program.class_id(self.elem_cls),
                z3.Length(V.Val.fields(e)) == len(ip.instance_attrs(self.elem_cls))))))
        return ZSeq(s, "tuple", elem_cls=self.elem_cls)


class DictVal(Shape):
    """A dict value of unknown contents (a Val term known to be a dict)."""

    def make(self, ip, name):
        k, v = V.fresh(name + "_k", V.VS), V.fresh(name + "_v", V.VS)
        ip.path.assume(z3.Length(k) == z3.Length(v))          # representation invariant of a mapping value
        return Z(V.VDict(k, v))


class ListVal(Shape):
    def make(self, ip, name):
        return Z(V.VList(V.fresh(name, V.VS)))


class Const(Shape):
    def __init__(self, value):
        self.value = value

    def make(self, ip, name):
        return ip.wrap(self.value)


class Obj(Shape):
    """A pre-existing object of class `cls` (resolved from 'module:Class') with the given field shapes."""

    def __init__(self, cls, fresh=False, by_ref=False, **fields):
        self.cls, self.fields, self.fresh, self.by_ref = cls, fields, fresh, by_ref

    def make(self, ip, name):
        cls = ip.program.resolve(self.cls) if isinstance(self.cls, str) else self.cls
        o = SObj(cls, {}, fresh=self.fresh, name=name)
        o.by_ref = self.by_ref
        for k, sh in self.fields.items():
            o.attrs[k] = sh.make(ip, f"{name}.{k}") if isinstance(sh, Shape) else ip.wrap(sh)
        return o


class FuncVal(Shape):
    """A function value drawn from a finite set of program functions ('module:name' strings)."""

    def __init__(self, names):
        self.names = names

    def make(self, ip, name):
        t = V.fresh(name, V.I)
        ids = [ip.program.func_id(ip.program.resolve(n)) for n in self.names]
        ip.path.assume(z3.Or([t == i for i in ids]))
        return Z(V.VFunc(t))


class OneOf(Shape):
    def __init__(self, *alts):
        self.alts = alts

    def make(self, ip, name):
        i = ip.path.choose([True] * len(self.alts), structural=True)
        a = self.alts[i]
        return a.make(ip, name) if isinstance(a, Shape) else ip.wrap(a)


class Opaque(Shape):
    """Any value at all, possibly an object of any program class (frame-only verification)."""

    def make(self, ip, name):
        return Z(V.fresh(name))


class FreshObj(Shape):
    """A freshly allocated, still empty object of class cls (the `self` of __init__)."""

    def __init__(self, cls):
        self.cls = cls

    def make(self, ip, name):
        cls = ip.program.resolve(self.cls) if isinstance(self.cls, str) else self.cls
        return SObj(cls, {}, fresh=True, name=name)


class ObjVal(Shape):
    """An object *value* of a known class with unknown fields (a Val term with a static class hint)."""

    def __init__(self, cls):
        self.cls = cls

    def make(self, ip, name):
        n = len(ip.instance_attrs(self.cls))
        fields = V.fresh(name + "_fields", V.VS)
        ip.path.assume(z3.Length(fields) == n)
        return Z(V.VObj(z3.IntVal(ip.program.class_id(self.cls)), fields), self.cls)


INTERFACES = {}


def interface(method_name, **kw):
    """A contract that every implementation of `method_name` in the program satisfies (each implementation's own
    contract is proved separately and implies it); used when the receiver's class is unknown."""
    c = Contract(f"interface:{method_name}", **kw)
    INTERFACES[method_name] = c
    return c
