"""Executor-level values of the pyvc symbolic executor.

Z(term)        a z3 `Val` term (immutable value: JSON data, scalars, snapshots of objects)
C(obj)         a concrete Python object evaluated by CPython itself (constants, classes, functions,
               modules, enum members, lookup tables)
LList/LTuple/LDict/LSet   local containers with a concrete spine (Python list of executor values) or, for
               LList, a symbolic spine (z3 Seq term); LList is mutable and tracks freshness
SObj(cls, attrs)          an instance of a (valida) class allocated or assumed in this activation
BoundMethod / Closure / BuiltinMethod     callables
"""
import z3

from . import vals as V


class Unsupported(Exception):
    """The code left the accepted subset: the function is out of reach (never a violation)."""


class Z:
    __slots__ = ("t", "cls")

    def __init__(self, t, cls=None):
        self.t = t
        self.cls = cls          # static class hint for VObj-valued terms (a real class object) or None

    def __repr__(self):
        return f"Z({self.t})"


class C:
    __slots__ = ("v",)

    def __init__(self, v):
        self.v = v

    def __repr__(self):
        return f"C({self.v!r})"


class LList:
    def __init__(self, items=None, seq=None, fresh=True):
        self.items = items          # list of executor values, or None when symbolic
        self.seq = seq              # z3 Seq(Val) when symbolic
        self.fresh = fresh

    @property
    def concrete(self):
        return self.items is not None

    def __repr__(self):
        return f"LList({self.items if self.concrete else self.seq})"


class LTuple:
    def __init__(self, items):
        self.items = list(items)

    def __repr__(self):
        return f"LTuple({self.items})"


class LDict:
    def __init__(self, pairs=None, fresh=True):
        self.pairs = list(pairs or [])   # [(key value, value value)] concrete spine, keys concrete C(...) hashables
        self.fresh = fresh

    def __repr__(self):
        return f"LDict({self.pairs})"


class LSet:
    def __init__(self, seq):
        self.seq = seq                   # z3 Seq(Val) of elements (duplicates allowed; set semantics by membership)


class SObj:
    _ctr = [0]

    def __init__(self, cls, attrs=None, fresh=True, name=None):
        self.cls = cls
        self.attrs = dict(attrs or {})
        self.fresh = fresh
        SObj._ctr[0] += 1
        self.oid = SObj._ctr[0]
        self.name = name or f"{cls.__name__}#{self.oid}"

    def __repr__(self):
        return f"SObj({self.name})"


class BoundMethod:
    def __init__(self, func, self_val, via_cls=None):
        self.func = func                 # a real Python function object
        self.self_val = self_val
        self.via_cls = via_cls           # class through which it was found (for super())


class Closure:
    def __init__(self, node, env, fn_globals, name="<lambda>"):
        self.node, self.env, self.fn_globals, self.name = node, env, fn_globals, name


class BuiltinMethod:
    def __init__(self, name, recv):
        self.name, self.recv = name, recv


class SuperProxy:
    def __init__(self, cls, obj):
        self.cls, self.obj = cls, obj


class ZBool:
    """A z3 Bool used as a Python bool value (kept unboxed to keep terms small)."""
    __slots__ = ("b",)

    def __init__(self, b):
        self.b = b

    def __repr__(self):
        return f"ZBool({self.b})"


class ZInt:
    __slots__ = ("i",)

    def __init__(self, i):
        self.i = i


class ZSeq:
    """A bare z3 Seq(Val) (iteration views: dict keys, values, zip results are built from these)."""
    __slots__ = ("s", "kind", "elem_cls")

    def __init__(self, s, kind="list", elem_cls=None):
        self.s = s
        self.kind = kind        # 'list' | 'tuple' | 'keys' | 'values' | 'range'
        self.elem_cls = elem_cls        # static class of every element (type invariant stated by the shape), or None
