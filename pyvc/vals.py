"""Value model and Python semantics ("pysem") for the pyvc verifier.

One z3 sort `Val` for every Python value that can flow through the verified code.  Python
semantics of the operators and builtins used by valida is given here as functions building z3
terms: each primitive returns (value term, [(exception kind, condition term), ...]).

Exactness policy (DESIGN.md §2.3, revised in §13): a primitive is *defined exactly* on scalar operands
(None, bool, int, float-as-real, str) and on the structural cases the proofs need (list/tuple/dict
shape, length, membership of a sequence), and is an *uninterpreted function* of its operands on the
remaining operand shapes, constrained only by its exception envelope (e.g. `==` never raises; `<`
on two lists returns a bool or raises TypeError).  Under-specification is sound for proofs (a VC
valid for every interpretation is valid for CPython's); a counter-model that lands in an
uninterpreted region may not replay, and is then reported as `no-failing-input-found`.
pysem is differential-tested against CPython on every run (pyvc/selfcheck.py).
"""
import z3

# ------------------------------------------------------------------------------------------ sorts
_V = z3.Datatype("Val")
_VS = z3.SeqSort(z3.DatatypeSort("Val"))
_V.declare("VNone")
_V.declare("VBool", ("b", z3.BoolSort()))
_V.declare("VInt", ("i", z3.IntSort()))
_V.declare("VFloat", ("r", z3.RealSort()))
_V.declare("VStr", ("s", z3.StringSort()))
_V.declare("VList", ("litems", _VS))
_V.declare("VTuple", ("titems", _VS))
_V.declare("VDict", ("dkeys", _VS), ("dvals", _VS))        # insertion ordered; wf: keys pairwise not py-equal
_V.declare("VSet", ("selems", _VS))
_V.declare("VRange", ("lo", z3.IntSort()), ("hi", z3.IntSort()))
_V.declare("VType", ("tid", z3.IntSort()))                 # a type object (builtin or valida class)
_V.declare("VFunc", ("fid", z3.IntSort()))                 # a function object of the program table
_V.declare("VObj", ("cls", z3.IntSort()), ("fields", _VS))  # an instance of a valida class (value semantics)
_V.declare("VOpaque", ("oid", z3.IntSort()))               # anything else (enum members, modules, ...)
Val = _V.create()
VS = z3.SeqSort(Val)
B, I, R, S = z3.BoolSort(), z3.IntSort(), z3.RealSort(), z3.StringSort()

VNone = Val.VNone
VBool, VInt, VFloat, VStr = Val.VBool, Val.VInt, Val.VFloat, Val.VStr
VList, VTuple, VDict, VSet, VRange = Val.VList, Val.VTuple, Val.VDict, Val.VSet, Val.VRange
VType, VFunc, VObj, VOpaque = Val.VType, Val.VFunc, Val.VObj, Val.VOpaque

# exception kinds (concrete ints at the executor level)
EXC = ["TypeError", "AttributeError", "KeyError", "IndexError", "ValueError", "ZeroDivisionError", "StopIteration",
       "RuntimeError", "RecursionError", "NotImplementedError", "AssertionError", "InvalidCallable",
       "MalformedConditionLikeSpec", "MalformedContainerItemSpec", "MalformedDataPathSpec", "MalformedRuleSpec",
       "UnboundLocalError", "NameError", "OverflowError", "Exception"]
EXC_PARENT = {"KeyError": "LookupError", "IndexError": "LookupError", "LookupError": "Exception",
              "ZeroDivisionError": "ArithmeticError", "OverflowError": "ArithmeticError", "ArithmeticError": "Exception",
              "UnboundLocalError": "NameError", "RecursionError": "RuntimeError", "NotImplementedError": "RuntimeError"}


def exc_isinstance(kind, handler):
    """Is exception class `kind` caught by `except handler`? (names; real hierarchy of the classes used)."""
    k = kind
    while True:
        if k == handler:
            return True
        if handler in ("Exception", "BaseException"):
            return True
        k = EXC_PARENT.get(k)
        if k is None or k == "Exception":
            return handler == "Exception" and k == "Exception"


# builtin type ids
TYPE_IDS = {}
TYPE_OBJS = {}


def type_id(t):
    if t not in TYPE_IDS:
        TYPE_IDS[t] = len(TYPE_IDS) + 1
        TYPE_OBJS[TYPE_IDS[t]] = t
    return TYPE_IDS[t]


for _t in (type(None), bool, int, float, str, list, tuple, dict, set, range, type):
    type_id(_t)
T_NONE, T_BOOL, T_INT, T_FLOAT, T_STR, T_LIST, T_TUPLE, T_DICT, T_SET, T_RANGE, T_TYPE = (
    type_id(t) for t in (type(None), bool, int, float, str, list, tuple, dict, set, range, type))

_fresh_ctr = [0]


def fresh(prefix, sort=None):
    _fresh_ctr[0] += 1
    return z3.Const(f"{prefix}!{_fresh_ctr[0]}", sort if sort is not None else Val)


def reset_fresh():
    _fresh_ctr[0] = 0


# ------------------------------------------------------------------------------------------ recognisers
is_none, is_bool, is_int, is_float, is_str = Val.is_VNone, Val.is_VBool, Val.is_VInt, Val.is_VFloat, Val.is_VStr
is_list, is_tuple, is_dict, is_set, is_range = Val.is_VList, Val.is_VTuple, Val.is_VDict, Val.is_VSet, Val.is_VRange
is_type, is_func, is_obj = Val.is_VType, Val.is_VFunc, Val.is_VObj


def is_num(v):
    return z3.Or(is_bool(v), is_int(v), is_float(v))


def is_integral(v):
    return z3.Or(is_bool(v), is_int(v))


def num(v):
    """Numeric value as a Real (bool < int < float tower)."""
    return z3.If(is_bool(v), z3.If(Val.b(v), z3.RealVal(1), z3.RealVal(0)),
                 z3.If(is_int(v), z3.ToReal(Val.i(v)), Val.r(v)))


def intval(v):
    return z3.If(is_bool(v), z3.If(Val.b(v), z3.IntVal(1), z3.IntVal(0)), Val.i(v))


def is_seq(v):
    return z3.Or(is_list(v), is_tuple(v))


def seq_items(v):
    return z3.If(is_list(v), Val.litems(v), Val.titems(v))


def mk_bool(b):
    return VBool(b)


def lit(x):
    """Concrete JSON-like Python value (or type / tuple) -> Val term."""
    if x is None:
        return VNone
    if isinstance(x, bool):
        return VBool(z3.BoolVal(x))
    if isinstance(x, int):
        return VInt(z3.IntVal(x))
    if isinstance(x, float):
        return VFloat(z3.RealVal(repr(x)) if x == x and abs(x) != float("inf") else z3.RealVal(0))
    if isinstance(x, str):
        return VStr(z3.StringVal(x))
    if isinstance(x, list):
        return VList(mk_seq([lit(i) for i in x]))
    if isinstance(x, tuple):
        return VTuple(mk_seq([lit(i) for i in x]))
    if isinstance(x, dict):
        return VDict(mk_seq([lit(k) for k in x.keys()]), mk_seq([lit(v) for v in x.values()]))
    if isinstance(x, range) and x.step == 1:
        return VRange(z3.IntVal(x.start), z3.IntVal(x.stop))
    if isinstance(x, type):
        return VType(z3.IntVal(type_id(x)))
    raise TypeError(f"lit: unsupported {x!r}")


def mk_seq(items):
    if not items:
        return z3.Empty(VS)
    if len(items) == 1:
        return z3.Unit(items[0])
    return z3.Concat(*[z3.Unit(i) for i in items])


# ------------------------------------------------------------------------------------------ uninterpreted parts
def U(name, *sorts):
    return z3.Function(name, *sorts)


U_eq = U("U_eq", Val, Val, B)              # == on operand shapes not interpreted below (containers, objects)
U_lt = U("U_lt", Val, Val, B)              # < on two lists / two tuples (when defined)
U_lt_undef = U("U_lt_undef", Val, Val, B)  # < on two lists / tuples raises TypeError (an element pair is unordered)
U_truth = U("U_truth", Val, B)
U_str_lt = U("U_str_lt", S, S, B)          # code-point order (z3's str.< is lexicographic on code points too)
U_mod = U("U_mod", R, R, R)                # float modulo
U_strfmt = U("U_strfmt", S, Val, Val)      # s % x  result
U_strfmt_err = U("U_strfmt_err", S, Val, I)  # 0 ok / kind index of the error (TypeError or ValueError)
U_hashable = U("U_hashable", Val, B)
U_repr = U("U_repr", Val, S)


def py_type_id(v):
    """Id of type(v) for builtin-typed values; objects carry their class id."""
    return z3.If(is_none(v), z3.IntVal(T_NONE), z3.If(is_bool(v), z3.IntVal(T_BOOL), z3.If(is_int(v), z3.IntVal(T_INT), z3.If(
        is_float(v), z3.IntVal(T_FLOAT), z3.If(is_str(v), z3.IntVal(T_STR), z3.If(is_list(v), z3.IntVal(T_LIST), z3.If(
            is_tuple(v), z3.IntVal(T_TUPLE), z3.If(is_dict(v), z3.IntVal(T_DICT), z3.If(is_set(v), z3.IntVal(T_SET), z3.If(
                is_range(v), z3.IntVal(T_RANGE), z3.If(is_type(v), z3.IntVal(T_TYPE), z3.If(
                    is_obj(v), z3.If(Val.cls(v) >= 1000, Val.cls(v), z3.IntVal(-1)), z3.IntVal(0)))))))))))))   # class ids start at 1000


def hashable(v):
    """hash(v) does not raise: scalars, types, functions; tuples iff all elements (uninterpreted); not list/dict/set."""
    return z3.If(z3.Or(is_list(v), is_dict(v), is_set(v)), z3.BoolVal(False),
                 z3.If(is_tuple(v), U_hashable(v), z3.BoolVal(True)))


# ------------------------------------------------------------------------------------------ ==, ordering
def eq_b(a, b):
    """Python a == b as a z3 Bool (never raises for the value kinds of the model)."""
    return z3.If(z3.And(is_num(a), is_num(b)), num(a) == num(b),
                 z3.If(z3.And(is_str(a), is_str(b)), Val.s(a) == Val.s(b),
                       z3.If(z3.And(is_none(a), is_none(b)), z3.BoolVal(True),
                             z3.If(z3.And(is_type(a), is_type(b)), Val.tid(a) == Val.tid(b),
                                   z3.If(z3.And(is_func(a), is_func(b)), Val.fid(a) == Val.fid(b),
                                         z3.If(_scalarish(a), z3.If(_scalarish(b), z3.BoolVal(False), _cross(a, b)),
                                               z3.If(_scalarish(b), _cross(a, b),
                                                     z3.If(a == b, z3.BoolVal(True), _struct_eq(a, b)))))))))


def _scalarish(v):
    return z3.Or(is_none(v), is_num(v), is_str(v), is_type(v), is_func(v))


def _cross(a, b):
    # scalar vs container/object: False for builtin containers; an object may define __eq__ (uninterpreted)
    return z3.If(z3.Or(is_obj(a), is_obj(b)), U_eq(a, b), z3.BoolVal(False))


def _struct_eq(a, b):
    """Containers / objects of the same or different kinds, not syntactically identical."""
    kinds_differ = z3.Or(z3.And(is_list(a), z3.Not(is_list(b))), z3.And(is_tuple(a), z3.Not(is_tuple(b))),
                         z3.And(is_dict(a), z3.Not(is_dict(b))), z3.And(is_set(a), z3.Not(is_set(b))),
                         z3.And(is_range(a), z3.Not(is_range(b))))
    both_seq = z3.Or(z3.And(is_list(a), is_list(b)), z3.And(is_tuple(a), is_tuple(b)))
    len_differs = z3.And(both_seq, z3.Length(seq_items(a)) != z3.Length(seq_items(b)))
    both_empty = z3.And(both_seq, z3.Length(seq_items(a)) == 0, z3.Length(seq_items(b)) == 0)
    return z3.If(z3.And(kinds_differ, z3.Not(is_obj(a)), z3.Not(is_obj(b))), z3.BoolVal(False),
                 z3.If(len_differs, z3.BoolVal(False), z3.If(both_empty, z3.BoolVal(True), U_eq(a, b))))


def lt_parts(a, b):
    """a < b : (value Bool, TypeError condition)."""
    both_num = z3.And(is_num(a), is_num(b))
    both_str = z3.And(is_str(a), is_str(b))
    both_seq = z3.Or(z3.And(is_list(a), is_list(b)), z3.And(is_tuple(a), is_tuple(b)))
    val = z3.If(both_num, num(a) < num(b), z3.If(both_str, Val.s(a) < Val.s(b), U_lt(a, b)))
    err = z3.Not(z3.Or(both_num, both_str, z3.And(both_seq, z3.Not(U_lt_undef(a, b)))))
    return val, err


def le_parts(a, b):
    both_num = z3.And(is_num(a), is_num(b))
    both_str = z3.And(is_str(a), is_str(b))
    both_seq = z3.Or(z3.And(is_list(a), is_list(b)), z3.And(is_tuple(a), is_tuple(b)))
    val = z3.If(both_num, num(a) <= num(b), z3.If(both_str, Val.s(a) <= Val.s(b), z3.Or(U_lt(a, b), eq_b(a, b))))
    err = z3.Not(z3.Or(both_num, both_str, z3.And(both_seq, z3.Not(U_lt_undef(a, b)))))
    return val, err


# ------------------------------------------------------------------------------------------ truthiness, len
def truth(v):
    return z3.If(is_bool(v), Val.b(v), z3.If(is_none(v), z3.BoolVal(False), z3.If(is_int(v), Val.i(v) != 0, z3.If(
        is_float(v), Val.r(v) != 0, z3.If(is_str(v), z3.Length(Val.s(v)) > 0, z3.If(is_list(v), z3.Length(Val.litems(v)) > 0, z3.If(
            is_tuple(v), z3.Length(Val.titems(v)) > 0, z3.If(is_dict(v), z3.Length(Val.dkeys(v)) > 0, z3.If(
                is_set(v), z3.Length(Val.selems(v)) > 0, z3.If(is_range(v), Val.hi(v) > Val.lo(v), z3.If(
                    z3.Or(is_type(v), is_func(v)), z3.BoolVal(True), U_truth(v))))))))))))


def len_parts(v):
    """len(v): (Int value, TypeError condition)."""
    val = z3.If(is_str(v), z3.Length(Val.s(v)), z3.If(is_list(v), z3.Length(Val.litems(v)), z3.If(
        is_tuple(v), z3.Length(Val.titems(v)), z3.If(is_dict(v), z3.Length(Val.dkeys(v)), z3.If(
            is_set(v), z3.Length(Val.selems(v)), z3.If(z3.And(is_range(v), Val.hi(v) > Val.lo(v)), Val.hi(v) - Val.lo(v),
                                                      z3.IntVal(0)))))))
    err = z3.Not(z3.Or(is_str(v), is_list(v), is_tuple(v), is_dict(v), is_set(v), is_range(v)))
    return val, err


# ------------------------------------------------------------------------------------------ membership
SeqHas = z3.RecFunction("SeqHas", VS, Val, I, B)    # SeqHas(xs, x, k): some j < k with xs[j] == x (Python ==)


def _def_seqhas():
    xs, x, k = z3.Const("xs", VS), z3.Const("x", Val), z3.Int("k")
    z3.RecAddDefinition(SeqHas, [xs, x, k], z3.If(k <= 0, z3.BoolVal(False), z3.Or(SeqHas(xs, x, k - 1), eq_b(xs[k - 1], x))))


_def_seqhas()


def seq_has(xs, x):
    return SeqHas(xs, x, z3.Length(xs))


def contains_parts(c, x):
    """x in c : (Bool value, TypeError condition)."""
    str_ok = z3.And(is_str(c), is_str(x))
    val = z3.If(is_str(c), z3.Contains(Val.s(c), Val.s(x)), z3.If(is_list(c), seq_has(Val.litems(c), x), z3.If(
        is_tuple(c), seq_has(Val.titems(c), x), z3.If(is_dict(c), seq_has(Val.dkeys(c), x), z3.If(
            is_set(c), seq_has(Val.selems(c), x), z3.And(is_num(x), num(x) >= z3.ToReal(Val.lo(c)), num(x) < z3.ToReal(Val.hi(c)),
                                                         z3.Or(is_integral(x), z3.IsInt(Val.r(x)))))))))
    err = z3.Or(z3.And(is_str(c), z3.Not(is_str(x))),
                z3.And(z3.Or(is_dict(c), is_set(c)), z3.Not(hashable(x))),
                z3.Not(z3.Or(is_str(c), is_list(c), is_tuple(c), is_dict(c), is_set(c), is_range(c))))
    return val, err


RangeSeq = z3.RecFunction("RangeSeq", I, I, VS)     # [VInt(lo), ..., VInt(hi-1)]
_lo, _hi = z3.Int("rs_lo"), z3.Int("rs_hi")
z3.RecAddDefinition(RangeSeq, [_lo, _hi], z3.If(_lo >= _hi, z3.Empty(VS), z3.Concat(z3.Unit(VInt(_lo)), RangeSeq(_lo + 1, _hi))))


# ------------------------------------------------------------------------------------------ dict access
DictIdx = z3.RecFunction("DictIdx", VS, Val, I, I)  # index of the key == x among the first k keys, or -1
DICTIDX_DEF = []


def _def_dictidx():
    xs, x, k = z3.Const("xs", VS), z3.Const("x", Val), z3.Int("k")
    body = z3.If(k <= 0, z3.IntVal(-1), z3.If(
        DictIdx(xs, x, k - 1) >= 0, DictIdx(xs, x, k - 1), z3.If(eq_b(xs[k - 1], x), k - 1, z3.IntVal(-1))))
    z3.RecAddDefinition(DictIdx, [xs, x, k], body)
    DICTIDX_DEF.append(([xs, x, k], body))



_def_dictidx()


def dict_index(d, k):
    return DictIdx(Val.dkeys(d), k, z3.Length(Val.dkeys(d)))


# ------------------------------------------------------------------------------------------ arithmetic
def mod_parts(a, b):
    """a % b : (Val, [(kind, cond)])   numeric x numeric exact for ints; str % x under-specified."""
    both_num = z3.And(is_num(a), is_num(b))
    both_int = z3.And(is_integral(a), is_integral(b))
    ia, ib = intval(a), intval(b)
    # Python: result has the sign of the divisor; z3 `%` (mod) is non-negative for any divisor sign
    m = ia % ib
    imod = z3.If(ib > 0, m, z3.If(m == 0, z3.IntVal(0), m + ib))
    val = z3.If(both_int, VInt(imod), z3.If(both_num, VFloat(U_mod(num(a), num(b))), U_strfmt(Val.s(a), b)))
    zero = z3.And(both_num, num(b) == 0)
    fmt_kind = U_strfmt_err(Val.s(a), b)
    errs = [("ZeroDivisionError", zero),
            ("TypeError", z3.Or(z3.And(z3.Not(both_num), z3.Not(is_str(a))), z3.And(is_str(a), fmt_kind == 1))),
            ("ValueError", z3.And(is_str(a), fmt_kind == 2))]
    return val, errs


def sub_parts(a, b):
    both_num = z3.And(is_num(a), is_num(b))
    both_int = z3.And(is_integral(a), is_integral(b))
    val = z3.If(both_int, VInt(intval(a) - intval(b)), VFloat(num(a) - num(b)))
    return val, [("TypeError", z3.Not(both_num))]


def abs_parts(a):
    val = z3.If(is_integral(a), VInt(z3.If(intval(a) >= 0, intval(a), -intval(a))),
                VFloat(z3.If(num(a) >= 0, num(a), -num(a))))
    return val, [("TypeError", z3.Not(is_num(a)))]


def range_parts(lo, hi):
    ok = z3.And(is_integral(lo), is_integral(hi))
    return VRange(intval(lo), intval(hi)), [("TypeError", z3.Not(ok))]


# ------------------------------------------------------------------------------------------ isinstance
SUBTYPE = {}      # (sub type id, super type id) known true pairs beyond reflexivity; filled by the program table


def type_matches(v, t):
    """isinstance(v, T) for a value v and a *type id term* t (builtin types: bool is an int)."""
    tv = py_type_id(v)
    base = z3.Or(tv == t, z3.And(tv == T_BOOL, t == T_INT))
    extra = [z3.And(tv == a, t == b) for (a, b) in SUBTYPE.items() if False]
    return base


IsInstAny = z3.RecFunction("IsInstAny", Val, VS, I, B)   # v is an instance of one of the first k classes
AllTypes = z3.RecFunction("AllTypes", VS, I, B)


def _def_isinst():
    v, cs, k = z3.Const("v", Val), z3.Const("cs", VS), z3.Int("k")
    z3.RecAddDefinition(IsInstAny, [v, cs, k], z3.If(k <= 0, z3.BoolVal(False), z3.Or(
        IsInstAny(v, cs, k - 1), type_matches(v, Val.tid(cs[k - 1])))))
    z3.RecAddDefinition(AllTypes, [cs, k], z3.If(k <= 0, z3.BoolVal(True), z3.And(AllTypes(cs, k - 1), is_type(cs[k - 1]))))


_def_isinst()


def isinstance_parts(v, classes):
    """isinstance(v, classes) with classes a type or a tuple of types."""
    val = z3.If(is_type(classes), type_matches(v, Val.tid(classes)),
                IsInstAny(v, Val.titems(classes), z3.Length(Val.titems(classes))))
    ok = z3.Or(is_type(classes), z3.And(is_tuple(classes), AllTypes(Val.titems(classes), z3.Length(Val.titems(classes)))))
    return val, [("TypeError", z3.Not(ok))]
