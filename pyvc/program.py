"""Program table: the real valida modules (imported from the tree under test) and the AST of every
function, extracted mechanically from the same files on every run.

What the extraction drops: comments, docstrings and type annotations (they are in the AST but never
executed by the symbolic executor).  Nothing is retyped: the executor interprets these ast nodes.
"""
import ast
import hashlib
import importlib
import inspect
import os
import sys
import types

MODULES = ["valida.callables", "valida.casting", "valida.utils", "valida.errors", "valida.data", "valida.conditions",
           "valida.datapath", "valida.rules", "valida.schema"]


class Program:
    def __init__(self, src_root):
        self.src_root = src_root
        if src_root not in sys.path:
            sys.path.insert(0, src_root)
        self.modules = {m: importlib.import_module(m) for m in MODULES}
        for m in self.modules.values():
            assert os.path.abspath(m.__file__).startswith(os.path.abspath(src_root)), (m.__file__, src_root)
        self.trees, self.sources = {}, {}
        self.by_line = {}          # (filename, lineno) -> FunctionDef / Lambda
        self.func_ids, self.funcs_by_id = {}, {}
        self.class_ids, self.classes_by_id = {}, {}
        for name, m in self.modules.items():
            src = open(m.__file__).read()
            self.sources[m.__file__] = src
            tree = ast.parse(src)
            self.trees[m.__file__] = tree
            for node in ast.walk(tree):
                if isinstance(node, (ast.FunctionDef, ast.Lambda)):
                    self.by_line.setdefault((m.__file__, node.lineno), node)
                    for d in getattr(node, "decorator_list", []):
                        self.by_line.setdefault((m.__file__, d.lineno), node)
            for k, v in vars(m).items():
                if inspect.isclass(v) and v.__module__ == name:
                    self.class_id(v)
                if inspect.isfunction(v) and v.__module__ == name:
                    self.func_id(v)

    # ---- ids for z3 encoding
    def func_id(self, f):
        f = getattr(f, "__func__", f)
        if f not in self.func_ids:
            self.func_ids[f] = len(self.func_ids) + 1
            self.funcs_by_id[self.func_ids[f]] = f
        return self.func_ids[f]

    def class_id(self, c):
        if c not in self.class_ids:
            self.class_ids[c] = 1000 + len(self.class_ids)
            self.classes_by_id[self.class_ids[c]] = c
        return self.class_ids[c]

    def fields_assigned(self, cls):
        """Names X of every `self.X = ...` / `self.X[...] = ...` store in a method of `cls` or of a base class of the program
        (read from the tree under check): the fields an instance built by the real code can have."""
        cache = self.__dict__.setdefault("_fields", {})
        if cls not in cache:
            out = set()
            for k in cls.__mro__:
                if not self.is_ours(k):
                    continue
                for v in vars(k).values():
                    f = v.fget if isinstance(v, property) else getattr(v, "__func__", v)
                    node = self.node_of(f) if inspect.isfunction(f) else None
                    if node is None or not node.args.args:
                        continue
                    me = node.args.args[0].arg
                    for n in ast.walk(node):
                        if isinstance(n, ast.Attribute) and isinstance(n.ctx, ast.Store) and isinstance(n.value, ast.Name) \
                                and n.value.id == me:
                            out.add(n.attr)
            cache[cls] = out
        return cache[cls]

    def is_ours(self, obj):
        mod = getattr(obj, "__module__", None)
        return isinstance(mod, str) and mod in self.modules

    def node_of(self, f):
        """The FunctionDef / Lambda ast node of a real function object of the program."""
        f = getattr(f, "__func__", f)
        code = getattr(f, "__code__", None)
        if code is None:
            return None
        fn = code.co_filename
        node = self.by_line.get((fn, code.co_firstlineno))
        if node is None:
            return None
        if isinstance(node, ast.FunctionDef) and node.name != code.co_name and code.co_name != "<lambda>":
            return None
        return node

    def segment(self, f):
        node = self.node_of(f)
        f0 = getattr(f, "__func__", f)
        fn = f0.__code__.co_filename
        src = ast.get_source_segment(self.sources[fn], node) or ""
        return {"function": f"{f0.__module__}:{f0.__qualname__}", "file": os.path.relpath(fn, self.src_root),
                "lines": [node.lineno, node.end_lineno], "sha256": hashlib.sha256(src.encode()).hexdigest()[:16]}

    def resolve(self, qualname):
        """'valida.conditions:Condition._filter' -> real function object."""
        mod, path = qualname.split("#")[0].split(":")
        if mod not in self.modules and mod.startswith(("spec.", "contracts.")):
            import importlib
            self.modules[mod] = importlib.import_module(mod)
        obj = self.modules[mod]
        for p in path.split("."):
            try:
                obj = inspect.getattr_static(obj, p)
            except AttributeError:
                return None
        if isinstance(obj, (classmethod, staticmethod)):
            obj = obj.__func__
        if isinstance(obj, property):
            obj = obj.fget
        return obj


def loop_key(node):
    """Structural signature of a loop: 'for <target> in <iter>' unparsed (robust to line moves / renames elsewhere)."""
    if isinstance(node, ast.For):
        return f"for {ast.unparse(node.target)} in {ast.unparse(node.iter)}"
    if isinstance(node, ast.While):
        return f"while {ast.unparse(node.test)}"
    raise TypeError(node)
