"""Specification functions defined by recursion on an integer argument (spec/*.py, registered with `spec_rec`).

Natively they are ordinary recursive Python functions (replay, witnesses).  For the prover each becomes a z3 recursive
function whose defining equation is obtained by interpreting the Python body once, symbolically, with the same
executor as the code under proof (recursive calls become applications of the function being defined).  A body path that
raises (an index out of the range the invariants use) gives the function an arbitrary fixed value there.

Well-foundedness is checked syntactically: the body must start with `if <n> <= 0: return ...` for its integer argument
<n> and every self-call must pass `<n> - 1` in that position.
"""
import ast

import z3

from . import vals as V
from .sym import Z, C, LList, ZBool, ZInt, ZSeq, Unsupported

KINDS = {"val": V.Val, "list": V.VS, "int": V.I, "bool": V.B}
_FUNCS = {}


def spec_rec(fn, returns="list", **kinds):
    fn._spec_kinds = kinds
    fn._spec_returns = returns
    return fn


def _check_wellfounded(ip, fn):
    node = ip.program.node_of(fn)
    ints = [k for k, v in fn._spec_kinds.items() if v == "int"]
    calls_self = [n for n in ast.walk(node) if isinstance(n, ast.Call) and isinstance(n.func, ast.Name) and n.func.id == fn.__name__]
    if not calls_self:
        return
    if len(ints) != 1:
        raise Unsupported(f"spec function {fn.__name__}: exactly one integer argument expected")
    n = ints[0]
    pos = list(fn._spec_kinds).index(n)
    first = [s for s in node.body if not (isinstance(s, ast.Expr) and isinstance(s.value, ast.Constant))][0]
    ok = (isinstance(first, ast.If) and isinstance(first.test, ast.Compare) and isinstance(first.test.left, ast.Name)
          and first.test.left.id == n and isinstance(first.test.ops[0], ast.LtE) and isinstance(first.test.comparators[0], ast.Constant)
          and first.test.comparators[0].value == 0 and isinstance(first.body[-1], ast.Return))
    for c in calls_self:
        a = c.args[pos] if len(c.args) > pos else None
        ok = ok and isinstance(a, ast.BinOp) and isinstance(a.op, ast.Sub) and isinstance(a.left, ast.Name) and a.left.id == n \
            and isinstance(a.right, ast.Constant) and a.right.value == 1
    if not ok:
        raise Unsupported(f"spec function {fn.__name__}: not of the form `if {n} <= 0: return ...; ... {fn.__name__}(..., {n} - 1)`")


def _to_sort(ip, kind, v):
    if kind == "val":
        return ip.to_z(v)
    if kind == "list":
        return V.seq_items(v.t) if isinstance(v, Z) else ip.seq_of(v)
    if kind == "int":
        i = ip.as_int(v)
        if i is None:
            raise Unsupported("spec function: integer argument expected")
        return i
    if kind == "bool":
        t = ip.z_truth(v)
        return z3.BoolVal(t) if isinstance(t, bool) else t
    raise Unsupported(kind)


def _from_sort(kind, t):
    return {"val": lambda: Z(t), "list": lambda: LList(None, t), "int": lambda: ZInt(t), "bool": lambda: ZBool(t)}[kind]()


_DEFAULT = {"val": lambda: V.VNone, "list": lambda: z3.Empty(V.VS), "int": lambda: z3.IntVal(0), "bool": lambda: z3.BoolVal(False)}


def apply(ip, fn, args, kwargs):
    from .comp import explore_body
    kinds = fn._spec_kinds
    names = list(kinds)
    if kwargs or len(args) != len(names):
        raise Unsupported(f"spec function {fn.__name__}: positional arguments only")
    if fn not in _FUNCS:
        _check_wellfounded(ip, fn)
        F = z3.RecFunction(f"Spec_{fn.__name__}", *[KINDS[kinds[n]] for n in names], KINDS[fn._spec_returns])
        _FUNCS[fn] = F
        params = [z3.Const(f"sp!{fn.__name__}!{n}", KINDS[kinds[n]]) for n in names]
        body_args = [_from_sort(kinds[n], p) for n, p in zip(names, params)]
        def run_body(sub):
            sub.spec_body = True
            return sub.call_function(fn, body_args, {}, force_inline=True)
        outcomes = explore_body(ip, run_body)
        term = _DEFAULT[fn._spec_returns]()
        for cond, (tag, v) in reversed(outcomes):
            if tag == "val":
                term = z3.If(cond, _to_sort(ip, fn._spec_returns, v), term)
        z3.RecAddDefinition(F, params, term)
        register_def(F, params, term)
        ip.assumptions_used.add(f"spec function {fn.__name__}: defining equation taken from its Python body (spec/walk.py); "
                                "termination by the syntactic descent check")
    F = _FUNCS[fn]
    return _from_sort(fn._spec_returns, F(*[_to_sort(ip, kinds[n], a) for n, a in zip(names, args)]))


# ------------------------------------------------------------------------------------------ bounded unfolding ("fuel")
# z3's own treatment of recursive definitions diverges on these queries (it keeps unfolding Seq-valued recursive
# functions while searching for a model and ignores its timeout there).  Queries are therefore sent with the spec
# functions replaced by uninterpreted functions of the same signature plus the defining equation instantiated at every
# application that occurs in the query, `fuel` levels deep.  Every added fact is an instance of a definition, so
# `unsat` carries over to the real functions; `sat` / `unknown` does not, and is retried with more fuel.
_DEFS = {}       # name -> (F, params, body)
_UF = {}


def register_def(F, params, body):
    _DEFS[F.name()] = (F, params, body)


def _uf(F):
    n = F.name()
    if n not in _UF:
        _UF[n] = z3.Function("U" + n, *[F.domain(i) for i in range(F.arity())], F.range())
    return _UF[n]


def _spec_apps(t, acc, seen):
    """Outermost applications of spec functions in t."""
    stack = [t]
    while stack:
        x = stack.pop()
        k = x.get_id()
        if k in seen or not z3.is_app(x):
            continue
        seen.add(k)
        if x.num_args() and x.decl().name() in _DEFS:
            acc.append(x)
            continue
        stack.extend(x.children())


def _rewrite(t, memo, found):
    k = t.get_id()
    if k in memo:
        return memo[k]
    memo.setdefault("keep", []).append(t)        # ast ids are reused once a term is collected: keep every keyed term alive
    apps = []
    _spec_apps(t, apps, set())
    pairs = []
    for a in apps:
        ka = a.get_id()
        memo["keep"].append(a)
        if ka not in memo:
            kids = [_rewrite(c, memo, found) for c in a.children()]
            try:
                r = _uf(_DEFS[a.decl().name()][0])(*kids)
            except z3.Z3Exception:
                raise RuntimeError(f"defuel: {a.decl()} applied to sorts {[str(c.sort()) for c in a.children()]} -> {[str(c.sort()) for c in kids]}")
            memo["keep"].append(r)
            found.setdefault(r.get_id(), (a.decl().name(), kids, r))
            memo[ka] = r
        pairs.append((a, memo[ka]))
    r = z3.substitute(t, *pairs) if pairs else t
    memo[k] = r
    return r


FORCE_FUEL = [False]
_FEAS_ONLY = set()     # functions abstracted in feasibility queries only (DictIdx: z3 spins on it there, ignoring its limits)


def register_feasibility_only(F, params, body):
    _DEFS[F.name()] = (F, params, body)
    _FEAS_ONLY.add(F.name())


def defuel(terms, fuel=1, feasibility=False, state=None):
    """terms (z3 Bools) -> (rewritten terms, definition instances).  `state` (a dict kept by the caller) carries the
    rewriting memo and the instances generated so far, so that a growing list of terms is only processed once."""
    if not _DEFS or (not feasibility and set(_DEFS) <= _FEAS_ONLY):
        return list(terms), []
    if not feasibility and _FEAS_ONLY:
        saved = {n: _DEFS.pop(n) for n in list(_FEAS_ONLY) if n in _DEFS}
        try:
            return defuel(terms, fuel, feasibility=True)
        finally:
            _DEFS.update(saved)
    st = state if state is not None else {}
    memo, found = st.setdefault("memo", {}), st.setdefault("found", {})
    axioms, level = st.setdefault("axioms", []), st.setdefault("level", {})     # level[app id] = unfolding depth it was found at
    out = []
    for t in terms:
        before = set(found)
        out.append(_rewrite(t, memo, found))
        for k in set(found) - before:
            level[k] = 0
    done = st.setdefault("done", set())
    progress = True
    while progress:
        progress = False
        for k, (name, kids, app) in list(found.items()):
            if k in done or level.get(k, 0) >= fuel:
                continue
            done.add(k)
            progress = True
            F, params, body = _DEFS[name]
            inst = z3.substitute(body, *list(zip(params, kids)))
            before = set(found)
            axioms.append(app == _rewrite(inst, memo, found))
            for k2 in set(found) - before:
                level[k2] = level.get(k, 0) + 1
    return out, list(axioms)


register_feasibility_only(V.DictIdx, *V.DICTIDX_DEF[0])
