"""Logical meaning of the contract-language primitives (spec/prims.py) under the prover."""
import z3

from . import vals as V
from .sym import Z, C, ZBool, ZInt, Unsupported


def _b(ip, v):
    t = ip.z_truth(v)
    return z3.BoolVal(t) if isinstance(t, bool) else t


def call_prim(ip, name, args, kwargs):
    from .comp import explore_body
    from .interp import PyRaise
    if name == "same":
        a, b = args
        if isinstance(a, C) and isinstance(b, C):
            return C(type(a.v) is type(b.v) and a.v == b.v)
        return ZBool(ip.to_z(a) == ip.to_z(b))
    if name == "is_bool":
        x = args[0]
        if isinstance(x, ZBool):
            return C(True)
        if isinstance(x, C):
            return C(isinstance(x.v, bool))
        if isinstance(x, Z):
            return ZBool(V.is_bool(x.t))
        return C(False)
    if name == "implies":
        return ZBool(z3.Implies(_b(ip, args[0]), _b(ip, args[1])))
    if name == "Raises":
        thunk, kind = args[0], args[1].v
        from .comp import explore_cached, env_key
        outcomes = explore_cached(ip, ("raises",) + env_key(thunk.node, thunk.env), lambda sub: sub.call(thunk, [], {}))
        conds = [c for c, (tag, k) in outcomes if tag == "raise" and V.exc_isinstance(k, kind)]
        return ZBool(z3.Or(conds) if conds else z3.BoolVal(False))
    raise Unsupported(f"contract primitive {name}")
