"""Logical meaning of the contract-language primitives (spec/prims.py) under the prover."""
import z3
from .engine import RLIMIT_PER_MS

from . import vals as V
from .sym import Z, C, ZBool, ZInt, Unsupported, LTuple as LTuple_, LList as LList_


def _b(ip, v):
    t = ip.z_truth(v)
    return z3.BoolVal(t) if isinstance(t, bool) else t


def call_prim(ip, name, args, kwargs):
    from .comp import explore_body
    from .interp import PyRaise
    if name == "same":
        a, b = args
        if isinstance(a, C) and isinstance(b, C):
            return C(type(a.v) is type(b.v) and a.v == b.v)
        return ZBool(ip.to_z(a) == ip.to_z(b))
    if name == "is_bool":
        x = args[0]
        if isinstance(x, ZBool):
            return C(True)
        if isinstance(x, C):
            return C(isinstance(x.v, bool))
        if isinstance(x, Z):
            return ZBool(V.is_bool(x.t))
        return C(False)
    if name == "is_fresh":
        from .sym import SObj, LList, LDict
        x = args[0]
        return C(bool(getattr(x, "fresh", False)) if isinstance(x, (SObj, LList, LDict)) else False)
    if name == "ApplyCallable":
        from .interp import StarArgs
        func, datum, a, kw = args
        return ip.call(func, [datum, StarArgs(a)], {"**": kw})
    if name == "forall_idx":
        return _forall(ip, args[0], args[1])
    if name == "is_prefix":
        a, b = ip.seq_of(args[0]) if not isinstance(args[0], Z) else V.seq_items(args[0].t), \
            ip.seq_of(args[1]) if not isinstance(args[1], Z) else V.seq_items(args[1].t)
        return ZBool(z3.PrefixOf(a, b))
    if name == "SemAt":
        cond, data, j = args[0], args[1], args[2]
        src = args[3] if len(args) > 3 else C(None)
        F = z3.Function("SemAt", V.Val, V.Val, V.Val, V.I, V.Val, V.B)
        jj = ip.as_int(j)
        return ZBool(F(ip.to_z(cond), ip.to_z(data.attrs["_keys"]), ip.to_z(data.attrs["_values"]), jj, ip.to_z(src)))
    if name in ("PartApplies", "PartVals", "PartKeys"):
        part, node = ip.to_z(args[0]), ip.to_z(args[1])
        if name == "PartApplies":
            return ZBool(z3.Function("PartApplies", V.Val, V.Val, V.B)(part, node))
        from .sym import LList
        return LList(None, z3.Function(name, V.Val, V.Val, V.VS)(part, node))
    if name == "PathSel":
        return Z(z3.Function("PathSel", V.Val, V.Val, V.Val)(ip.to_z(args[0]), ip.to_z(args[1])))
    if name in ("fst", "snd"):
        # component of a pair (a list or a tuple); specification-level, so no case split on the kind of the value
        x = args[0]
        i = 0 if name == "fst" else 1
        if isinstance(x, (LTuple_, LList_)) and getattr(x, "items", None) is not None and (not isinstance(x, LList_) or x.concrete):
            return x.items[i]
        return Z(V.seq_items(ip.to_z(x))[i])
    if name == "as_obj":
        x, cls = args[0], args[1].v
        if isinstance(x, Z):
            n = len(ip.instance_attrs(cls))
            return Z(x.t, cls)
        return x
    if name == "all_lists":
        return _all_lists(ip, args[0])
    if name == "IsJson":
        return _is_json(ip, args[0])
    if name == "Binds":
        return _binds(ip, *args)
    if name == "implies":
        return ZBool(z3.Implies(_b(ip, args[0]), _b(ip, args[1])))
    if name == "Raises":
        thunk, kind = args[0], args[1].v
        from .comp import explore_cached, env_key
        outcomes = explore_cached(ip, ("raises",) + env_key(thunk.node, thunk.env), lambda sub: sub.call(thunk, [], {}))
        conds = [c for c, (tag, k) in outcomes if tag == "raise" and V.exc_isinstance(k, kind)]
        return ZBool(z3.Or(conds) if conds else z3.BoolVal(False))
    raise Unsupported(f"contract primitive {name}")


def _binds(ip, func, args, kwargs):
    """Binds(func, args, kwargs) for a concrete function: decided from the function's ast parameter list."""
    from .sym import LTuple, LDict, ZSeq
    f = func.v
    node = ip.program.node_of(f)
    a = node.args
    pos = [p.arg for p in a.posonlyargs + a.args][1:]          # after the datum
    n_required = len(pos) - len(a.defaults)
    if isinstance(args, LTuple):
        npos = len(args.items)
    elif isinstance(args, ZSeq):
        npos = None
    else:
        raise Unsupported("Binds: args shape")
    if isinstance(kwargs, LDict):
        keys = [k.v for k, _ in kwargs.pairs]
    else:
        keys = None
    if npos is None:                    # symbolic number of positionals: fine iff there is a *args and no named params remain
        ok = a.vararg is not None and (keys is None and a.kwarg is not None or keys is not None and all(
            k in pos for k in keys) and not pos)
        if keys is None:
            ok = a.vararg is not None and a.kwarg is not None and not pos
        return C(bool(a.vararg is not None and not pos and (keys == [] or (keys is None and a.kwarg is not None))))
    if keys is None:                    # symbolic keywords: fine iff **kwargs exists and positionals fit and cover all named params
        return C(bool(a.kwarg is not None and npos <= len(pos) and npos >= n_required or (a.kwarg is not None and not pos and npos == 0)))
    if npos > len(pos) and a.vararg is None:
        return C(False)
    bound = set(pos[:npos])
    for k in keys:
        if k in bound:
            return C(False)
        if k in pos:
            bound.add(k)
        elif a.kwarg is None:
            return C(False)
    missing = [p for i, p in enumerate(pos) if p not in bound and i < n_required]
    return C(not missing)


def _forall(ip, n, fn):
    """forall_idx(n, lambda j: P(j)):  for every 0 <= j < n, P(j)."""
    from .comp import merged_bool, value_key, tid
    nn = ip.as_int(n)
    if nn is None:
        raise Unsupported("forall_idx bound")
    mode = getattr(ip, "clause_mode", "goal")
    if mode == "assume":
        # the body is interpreted once, at a generic index; instances are substitutions
        j0 = V.fresh("qj", V.I)
        tpl = []

        def fact(j, ip=ip, fn=fn, nn=nn):
            if not tpl:
                tpl.append(merged_bool(ip, lambda sub: sub.call(fn, [ZInt(j0)], {}), ("forall", value_key(fn), tid(j0))))
            return z3.Implies(z3.And(j >= 0, j < nn), z3.substitute(tpl[0], (j0, j)))
        ip.path.add_qfact(fact)
        return C(True)
    j = V.fresh("sk", V.I)
    insts = ip.path.instances(j)
    body = merged_bool(ip, lambda sub: sub.call(fn, [ZInt(j)], {}), ("forall", value_key(fn), tid(j)))
    # the known quantified facts are also instantiated at the other index terms the goal reads sequences at
    # (an element of a concatenation a ++ b at position j is b's element at j - len(a))
    goal_seqs = read_sequences(body)
    for t in index_terms(body, j):
        # at derived index terms only the facts that speak about a sequence the goal reads are instantiated
        insts += [f for f in ip.path.instances(t) if read_sequences(f) & goal_seqs]
    insts += concat_nth_lemmas(body)
    # (forall j. A and B) is proved as (forall j. A) and (forall j. B): smaller queries, and the failing part is named
    from .engine import _conjuncts
    hyp = z3.And([j >= 0, j < nn] + insts)
    parts = _conjuncts(z3.simplify(body)) if z3.is_bool(body) else [body]
    return ZBool(z3.And([z3.Implies(hyp, c) for c in parts]) if len(parts) > 1 else z3.Implies(hyp, body))


def read_sequences(t0):
    """ids of the sequence terms that t0 reads elements of (pieces of concatenations included)."""
    from .comp import tid
    out, visited, stack = set(), set(), [t0]
    while stack:
        t = stack.pop()
        if t.get_id() in visited or not z3.is_app(t):
            continue
        visited.add(t.get_id())
        if t.decl().kind() == z3.Z3_OP_SEQ_NTH or t.decl().name().startswith("seq.nth"):
            segs = [t.arg(0)]
            while segs:
                sg = segs.pop()
                out.add(tid(sg))
                if z3.is_app(sg) and sg.decl().kind() == z3.Z3_OP_SEQ_CONCAT:
                    segs.extend(sg.children())
        stack.extend(t.children())
    return out


def concat_nth_lemmas(body, limit=8):
    """Instances of the sequence-theory fact  0 <= t - off < len(c)  ->  (.. ++ c ++ ..)[t] = c[t - off]  for the element
    reads of concatenations in the goal (valid in the theory of sequences; stated explicitly because z3 does not always
    find the case split on its own)."""
    out, visited, stack = [], set(), [body]
    while stack and len(out) < limit * 3:
        t = stack.pop()
        if t.get_id() in visited or not z3.is_app(t):
            continue
        visited.add(t.get_id())
        if (t.decl().kind() == z3.Z3_OP_SEQ_NTH or t.decl().name().startswith("seq.nth")) and z3.is_app(t.arg(0)) \
                and t.arg(0).decl().kind() == z3.Z3_OP_SEQ_CONCAT:
            s, i = t.arg(0), t.arg(1)
            off = z3.IntVal(0)
            for c in s.children():
                out.append(z3.Implies(z3.And(i - off >= 0, i - off < z3.Length(c)), s[i] == c[i - off]))
                off = off + z3.Length(c)
        stack.extend(t.children())
    return out


def index_terms(body, j, limit=12):
    out, seen, stack = [], set(), [body]
    def has_nth(t):
        st = [t]
        while st:
            x = st.pop()
            if z3.is_app(x):
                if x.decl().kind() == z3.Z3_OP_SEQ_NTH or x.decl().name().startswith("seq.nth"):
                    return True
                st.extend(x.children())
        return False

    def add(t):
        t = z3.simplify(t)
        if has_nth(t):
            return            # an element used as an index (xs[ys[j]]): not an instantiation point
        if t.get_id() not in seen and not t.eq(j) and len(out) < limit:
            seen.add(t.get_id())
            out.append(t)
    visited = set()
    while stack:
        t = stack.pop()
        if t.get_id() in visited or not z3.is_app(t):
            continue
        visited.add(t.get_id())
        if t.decl().kind() == z3.Z3_OP_SEQ_NTH or t.decl().name() in ("seq.nth", "seq.nth_i", "seq.nth_u"):
            s, i = t.arg(0), t.arg(1)
            add(i)
            off = i
            segs = [s]
            while segs:
                sg = segs.pop(0)
                if z3.is_app(sg) and sg.decl().kind() == z3.Z3_OP_SEQ_CONCAT:
                    acc = off
                    for c in sg.children()[:-1]:
                        acc = acc - z3.Length(c)
                        add(acc)
        stack.extend(t.children())
    return out


def _is_json(ip, v):
    """JSON-compatible: dict with string keys / list / str / int / float / bool / None, recursively.  Concrete spines are
    walked; a symbolic leaf must be a JSON scalar (z3 condition)."""
    from .sym import LDict, LList, LTuple, ZSeq, SObj
    if isinstance(v, C):
        import json
        try:
            return C(json.loads(json.dumps(v.v)) == v.v and not isinstance(v.v, tuple))
        except (TypeError, ValueError):
            return C(False)
    if isinstance(v, (ZBool, ZInt)):
        return C(True)
    if isinstance(v, LDict):
        conds = []
        for k, x in v.pairs:
            if not (isinstance(k, C) and isinstance(k.v, str)):
                return C(False)
            conds.append(_is_json(ip, x))
    elif isinstance(v, LList) and v.concrete:
        conds = [_is_json(ip, x) for x in v.items]
    elif isinstance(v, (LTuple, SObj)):
        return C(False)
    elif isinstance(v, Z):
        t = v.t
        return ZBool(z3.Or(V.is_none(t), V.is_bool(t), V.is_int(t), V.is_float(t), V.is_str(t)))
    else:
        raise Unsupported(f"IsJson of {type(v).__name__}")
    acc = []
    for c in conds:
        if isinstance(c, C):
            if not c.v:
                return C(False)
        else:
            acc.append(c.b)
    return ZBool(z3.And(acc)) if acc else C(True)


ALL_LISTS = z3.Function("AllLists", V.VS, V.B)
_AL_SEEN = {}


def _all_lists(ip, xs):
    """all_lists(xs): every element of the sequence is a list.  Kept as an opaque predicate AllLists(s) with three rules,
    each true of that meaning: (use) AllLists(s) and 0 <= j < len(s) give is_list(s[j]) - registered as a quantified fact;
    (build) AllLists of a concatenation / unit / empty sequence / map comprehension whose element expression is a list
    for every element is reduced, when it is a proof goal, to AllLists of the pieces."""
    from .sym import LList
    from .comp import tid, comp_element_function
    s = V.seq_items(xs.t) if isinstance(xs, Z) else ip.seq_of(xs)
    atom = ALL_LISTS(s)
    if tid(s) not in _AL_SEEN or True:
        ip.path.add_qfact(lambda j, s=s, atom=atom: z3.Implies(z3.And(atom, j >= 0, j < z3.Length(s)), V.is_list(s[j])))

    def build(t):
        if z3.is_app(t):
            k = t.decl().kind()
            if k == z3.Z3_OP_SEQ_CONCAT:
                return z3.And([build(c) for c in t.children()])
            if k == z3.Z3_OP_SEQ_EMPTY:
                return z3.BoolVal(True)
            if k == z3.Z3_OP_SEQ_UNIT:
                return V.is_list(t.arg(0))
            ef = comp_element_function(t)
            if ef is not None:
                sv = z3.Solver()
                sv.set("timeout", 3000)
                sv.set("rlimit", RLIMIT_PER_MS * (3000))
                sv.add(z3.Not(V.is_list(ef)))
                if sv.check() == z3.unsat:
                    return z3.BoolVal(True)
        return ALL_LISTS(t)
    if getattr(ip, "clause_mode", "goal") == "assume":
        return ZBool(z3.And(atom, build(s)))
    return ZBool(build(s))
