"""Comprehensions, generator expressions and folds (any / all / sum) over *symbolic* sequences.

The element expression is executed symbolically once for a fresh element constant (all its paths, merged
into one term per outcome), lambda-lifted over the constants it captures, and turned into recursive z3
functions of an index that reproduce Python's evaluation order exactly: element errors propagate, and
any/all stop at the first decisive element.  Functions are hash-consed on their canonical body, so the
same comprehension text in the code and in a contract denotes the same function (DESIGN §2.6).
"""
import ast

import z3
from .engine import RLIMIT_PER_MS

from . import vals as V
from .engine import Engine, Path, PathEnd
from .sym import Z, C, LList, LTuple, LDict, SObj, Closure, ZBool, ZInt, ZSeq, Unsupported

_FUNCS = {}          # canonical key -> dict of RecFunctions
CANON_E = z3.Const("elt!canon", V.Val)
KIND_CODE = {k: i + 1 for i, k in enumerate(V.EXC)}
CODE_KIND = {v: k for k, v in KIND_CODE.items()}


def free_consts(terms):
    seen, out = set(), []

    def walk(t):
        if t.get_id() in seen:
            return
        seen.add(t.get_id())
        if z3.is_const(t) and t.decl().kind() == z3.Z3_OP_UNINTERPRETED:
            out.append(t)
            return
        for c in t.children():
            walk(c)
    for t in terms:
        walk(t)
    return out


def captured_subterms(terms, bound):
    """The maximal subterms of `terms` that do not depend on the bound constants (element, index) and are not pure
    literals: what a comprehension captures from its environment.  Abstracting whole subterms (rather than the free
    constants inside them) makes `[p[i] + [x] for x in xs]` and `[q + [x] for x in xs]` instances of one function."""
    bound_ids = {b.get_id() for b in bound}
    dep, lit = {}, {}

    def depends(t):
        k = t.get_id()
        if k not in dep:
            _KEEPALIVE.append(t)
            dep[k] = k in bound_ids or any(depends(c) for c in t.children())
        return dep[k]

    def literal(t):
        k = t.get_id()
        if k not in lit:
            _KEEPALIVE.append(t)
            if z3.is_app(t) and t.decl().kind() in (z3.Z3_OP_UNINTERPRETED, z3.Z3_OP_RECURSIVE):
                lit[k] = False
            else:
                lit[k] = all(literal(c) for c in t.children())
        return lit[k]
    caps, seen = [], set()

    def walk(t):
        k = t.get_id()
        if k in seen:
            return
        seen.add(k)
        if not depends(t):
            if not literal(t) and not any(t.eq(c) for c in caps):
                caps.append(t)
            return
        for c in t.children():
            walk(c)
    for t in terms:
        walk(t)
    return sorted(caps, key=lambda c: str(c.sort()))         # stable: first occurrence within a sort


_BODY_CACHE = {}


_KEEPALIVE = []          # z3 ast ids are only unique among live terms: every term whose id enters a cache key is kept alive


def tid(t):
    _KEEPALIVE.append(t)
    return t.get_id()


def value_key(v):
    if isinstance(v, Z):
        return ("z", tid(v.t), id(v.cls))
    if isinstance(v, ZBool):
        return ("b", tid(v.b))
    if isinstance(v, ZInt):
        return ("i", tid(v.i))
    if isinstance(v, ZSeq):
        return ("s", tid(v.s), v.kind)
    if isinstance(v, C):
        x = v.v
        return ("c", x) if isinstance(x, (type(None), bool, int, float, str)) else ("co", id(x))
    if isinstance(v, LTuple):
        return ("t",) + tuple(value_key(i) for i in v.items)
    if isinstance(v, LList):
        if not v.concrete:
            return ("l", tid(v.seq), v.fresh)
        return ("lc", v.fresh) + tuple(value_key(i) for i in v.items)
    if isinstance(v, LDict):
        return ("d", v.fresh) + tuple((value_key(k), value_key(x)) for k, x in v.pairs)
    if isinstance(v, SObj):
        return ("o", id(v.cls), v.fresh) + tuple((k, value_key(x)) for k, x in sorted(v.attrs.items()))
    if isinstance(v, Closure):
        return ("cl", id(v.node)) + tuple((k, value_key(x)) for k, x in sorted(v.env.items()) if k in _names_of(v.node))
    return ("id", id(v))


_NAMES = {}


def _names_of(node):
    if id(node) not in _NAMES:
        _NAMES[id(node)] = {n.id for n in ast.walk(node) if isinstance(n, ast.Name)}
    return _NAMES[id(node)]


def env_key(node, env):
    names = sorted(_names_of(node))
    return (id(node),) + tuple((n, value_key(env[n])) for n in names if n in env)


def explore_cached(ip, key, thunk, e=None):
    """explore_body with a cache on (expression node, values of the variables it mentions): the exploration is
    context-free, so its outcomes depend on nothing else (the element constant is cached with them)."""
    if key not in _BODY_CACHE:
        _BODY_CACHE[key] = (e, explore_body(ip, thunk))
    return _BODY_CACHE[key][1]


def explore_body(ip, thunk, context_free=True):
    """Run thunk(sub_interp) on every path from the current state; returns [(cond, ('val', v) | ('raise', kind))]."""
    from .interp import Interp, PyRaise
    outer = ip.path
    eng = Engine(feas_timeout_ms=outer.engine.feas_timeout_ms)
    eng.no_feasibility = outer.engine.no_feasibility
    base = 0 if context_free else len(outer.pc)
    outcomes = []

    def run(p):
        p.qfacts = list(outer.qfacts)
        n_q = len(p.qfacts)
        # context-free: the body is explored without the caller's path condition, so that the same expression yields
        # the same merged term (and hence the same recursive function) at every site
        base_pc = [] if context_free else list(outer.pc)
        p.pc = list(base_pc)
        p._solver, p._synced = None, 0
        p._atoms, p._atoms_synced = set(), 0
        p._const_choice = dict(outer.__dict__.get("_const_choice", {}))
        sub = Interp(p, ip.program, ip.contracts, ip.verifying)
        sub.depth = ip.depth
        sub.modifies_ok = ip.modifies_ok
        sub.clause_mode = getattr(ip, "clause_mode", None)
        sub._active_closures = ip.__dict__.setdefault("_active_closures", [])
        sub._try_depth = ip.__dict__.setdefault("_try_depth", [0])
        sub._active_funcs = ip.__dict__.setdefault("_active_funcs", [])
        sub.frame_only = getattr(ip, "frame_only", False)
        sub.opaque_objects = getattr(ip, "opaque_objects", False)
        try:
            v = thunk(sub)
            out = ("val", v)
        except PyRaise as e:
            out = ("raise", e.kind)
        except Unsupported:
            # the expression is explored without the caller's path condition: a case of it that left the subset matters
            # only if the caller's path can take it
            here = z3.And(p.pc[base:]) if len(p.pc) > base else z3.BoolVal(True)
            if context_free and not outer.engine.no_feasibility and not outer.feasible(here):
                return
            raise
        finally:
            ip.assumptions_used |= sub.assumptions_used
            ip.inlined |= sub.inlined
            ip.contract_calls |= sub.contract_calls
        if getattr(p, "unsure", False):
            outer.unsure = True
        for ob in p.obligations:
            outer.obligations.append(ob)
        cond = z3.And(p.pc[base:]) if len(p.pc) > base else z3.BoolVal(True)
        for qf in p.qfacts[n_q:]:
            outer.add_qfact(lambda j, qf=qf, cond=cond: z3.Implies(cond, qf(j)))
        outcomes.append((cond, out))
    eng.explore(run, nested=True)
    return outcomes


def merge_values(ip, outcomes):
    """ite-merge of the 'val' outcomes into one Val term; err: {kind: cond}."""
    vals = [(c, ip.to_z(v)) for c, (tag, v) in outcomes if tag == "val"]
    errs = {}
    for c, (tag, v) in outcomes:
        if tag == "raise":
            errs[v] = z3.Or(errs[v], c) if v in errs else c
    if not vals:
        return None, errs
    term = vals[-1][1]
    for c, t in reversed(vals[:-1]):
        term = z3.If(c, t, term)
    return term, errs


def _err_code(errs):
    code = z3.IntVal(0)
    for kind, c in errs.items():
        code = z3.If(c, z3.IntVal(KIND_CODE[kind]), code)
    return code


def _canon(e, terms):
    """Replace captured constants (all free constants except e) by canonical parameters; return (canonical terms, params, actuals)."""
    caps = sorted([c for c in free_consts(terms) if not c.eq(e)], key=lambda c: (str(c.sort()), str(c)))
    params = [z3.Const(f"cap!{i}", c.sort()) for i, c in enumerate(caps)]
    sub = list(zip(caps, params)) + [(e, CANON_E)]
    return [z3.substitute(t, *sub) for t in terms], params, caps


def lookup_equiv(kind, terms, params):
    """An already defined function family whose canonical body is *semantically* equal (z3-valid equality of every
    component over the same canonical parameters), else None.  (Syntactic keys are not stable: z3's simplifier orders
    commutative arguments by ast id.)"""
    sig = (kind, tuple(str(p.sort()) for p in params), len(terms))
    for (k2, terms2, funcs) in _FUNCS.get(sig, []):
        s = z3.Solver()
        s.set("timeout", 3000)
        s.set("rlimit", RLIMIT_PER_MS * (3000))
        s.add(z3.Not(z3.And([a == b for a, b in zip(terms, terms2)])))
        if s.check() == z3.unsat:
            return funcs
    return None


def remember(kind, terms, params, funcs):
    sig = (kind, tuple(str(p.sort()) for p in params), len(terms))
    _FUNCS.setdefault(sig, []).append((kind, terms, funcs))


def comp_element_function(t):
    """For t = CompVal_n(seqs..., start, caps...): the element term Elt_n(e..., i, caps...) at arbitrary fresh e, i
    (every element of t is such a value), else None."""
    if not z3.is_app(t):
        return None
    name = t.decl().name()
    for fams in _FUNCS.values():
        for (_, _, funcs) in fams:
            if funcs[0].name() == name:
                FV, FE, may_err, (EV, EK, f_params) = funcs
                m = (FV.arity() - 1 - len(f_params))
                caps = [t.arg(m + 1 + i) for i in range(len(f_params))]
                es = [z3.Const(f"al_e{c}", V.Val) for c in range(m)]
                return EV(*es, z3.Int("al_i"), *caps)
    return None


def n_funcs():
    return sum(len(v) for v in _FUNCS.values())


LEMMAS_EMITTED = set()


def comp_sources(ip, it):
    """Normalise the iterable of a comprehension over symbolic data: ([z3 seqs], make_elem(consts, i) -> executor value)."""
    from .builtins_model import SymEnumerate, SymZip
    if isinstance(it, SymZip):
        seqs = list(it.seqs)
        return seqs, (lambda es, i: LTuple([Z(e) for e in es]))
    if isinstance(it, SymEnumerate):
        return [it.seq], (lambda es, i: LTuple([ZInt(i + it.start), Z(es[0])]))
    return [ip.iter_seq(it)], (lambda es, i: Z(es[0]))


CANON_I = z3.Int("idx!canon")


def build_comprehension(ip, node, g, it, fr):
    """[elt for target in <symbolic iterable> if conds]; the iterable is a sequence, a zip of sequences or an
    enumerate.  Defines (or re-uses) recursive functions CompVal / CompErr of an index and, for a plain map
    (no filter, no element error), proves and registers the pointwise lemma
        len(result) = n  and  result[j] = elt(xs[j])   (n = length of the shortest source)."""
    from .interp import Frame, PyRaise
    seqs, mk = comp_sources(ip, it)
    m = len(seqs)
    ckey = ("comp", m) + env_key(node, fr.env)
    if ckey in _BODY_CACHE:
        es, idx = _BODY_CACHE[ckey][0]
    else:
        es, idx = [V.fresh("elt") for _ in range(m)], V.fresh("cidx", V.I)

    def body(sub):
        env = dict(fr.env)
        f2 = Frame(fr.func, env, fr.fn_globals, fr.cls_ctx, fr.name)
        sub.assign_target(g.target, mk(es, idx), f2)
        for c in g.ifs:
            if not sub.truth(sub.eval(c, f2)):
                return None
        return sub.eval(node.elt, f2)
    outcomes = explore_cached(ip, ckey, body, (es, idx))
    keep_cond = z3.Or([c for c, (tag, v) in outcomes if tag == "val" and v is not None] or [z3.BoolVal(False)])
    val, errs = merge_values(ip, [(c, o) for c, o in outcomes if not (o[0] == "val" and o[1] is None)])
    if val is None:
        val = V.VNone
    err = _err_code(errs)
    canon_es = [z3.Const(f"elt!canon{c}", V.Val) for c in range(m)]
    terms = [val, z3.simplify(keep_cond), err]
    bound = list(es) + [idx]
    caps = captured_subterms(terms, bound)
    params = [z3.Const(f"cap!{i}", c.sort()) for i, c in enumerate(caps)]
    sub = list(zip(caps, params)) + list(zip(es, canon_es)) + [(idx, CANON_I)]
    cval, ckeep, cerr = [z3.substitute(t, *sub) for t in terms]
    found = lookup_equiv(("comp", m), [cval, ckeep, cerr], params)
    if found is None:
        n = n_funcs()
        sorts = [p.sort() for p in params]
        # element-level functions (non-recursive definitions): value, keep condition, error code
        EV = z3.RecFunction(f"CompElt{n}", *([V.Val] * m), V.I, *sorts, V.Val)
        EK = z3.RecFunction(f"CompKeep{n}", *([V.Val] * m), V.I, *sorts, V.B)
        EE = z3.RecFunction(f"CompEltErr{n}", *([V.Val] * m), V.I, *sorts, V.I)
        z3.RecAddDefinition(EV, canon_es + [CANON_I] + params, cval)
        z3.RecAddDefinition(EK, canon_es + [CANON_I] + params, ckeep)
        z3.RecAddDefinition(EE, canon_es + [CANON_I] + params, cerr)
        FV = z3.RecFunction(f"CompVal{n}", *([V.VS] * m), V.I, *sorts, V.VS)
        FE = z3.RecFunction(f"CompErr{n}", *([V.VS] * m), V.I, *sorts, V.I)
        ss, i = [z3.Const(f"cs{c}", V.VS) for c in range(m)], z3.Int("ci")
        at = lambda F: F(*[ss[c][i] for c in range(m)], i, *params)
        stop = z3.Or([i < 0] + [i >= z3.Length(sq) for sq in ss])
        z3.RecAddDefinition(FV, ss + [i] + params, z3.If(stop, z3.Empty(V.VS), z3.If(
            at(EK), z3.Concat(z3.Unit(at(EV)), FV(*ss, i + 1, *params)), FV(*ss, i + 1, *params))))
        z3.RecAddDefinition(FE, ss + [i] + params, z3.If(stop, z3.IntVal(0), z3.If(
            at(EE) != 0, at(EE), FE(*ss, i + 1, *params))))
        found = (FV, FE, bool(errs), (EV, EK, params))
        remember(("comp", m), [cval, ckeep, cerr], params, found)
    FV, FE, may_err, (EV, EK, f_params) = found
    no_err = False
    if errs:
        # pointwise discharge: if, for an arbitrary index j in range, the element expression cannot raise under the path
        # condition and the known quantified facts instantiated at j, no element raises and the comprehension is a map
        n_len0 = z3.Length(seqs[0])
        for sq in seqs[1:]:
            n_len0 = z3.If(z3.Length(sq) < n_len0, z3.Length(sq), n_len0)
        jj = V.fresh("ej", V.I)
        EE_at = z3.substitute(err, *([(es[c], seqs[c][jj]) for c in range(m)] + [(idx, jj)]))
        sv = z3.Solver()
        sv.set("timeout", 3000)
        sv.set("rlimit", RLIMIT_PER_MS * (3000))
        keep_at = z3.substitute(z3.simplify(keep_cond), *([(es[c], seqs[c][jj]) for c in range(m)] + [(idx, jj)]))
        from . import specfun
        q_terms, q_ax = specfun.defuel(list(ip.path.pc) + [jj >= 0, jj < n_len0] + ip.path.instances(jj) + [
            z3.Or(EE_at != 0, z3.Not(keep_at)) if not g.ifs else EE_at != 0], 1)
        sv.add(*q_terms)
        sv.add(*q_ax)
        import os as _os
        _r = sv.check()
        if _os.environ.get("PYVC_DUMP"):
            _n = len(_os.listdir(_os.environ["PYVC_DUMP"]))
            open(_os.path.join(_os.environ["PYVC_DUMP"], f"pw{_n}_{node.lineno}_{_r}.smt2"), "w").write(sv.to_smt2())
        no_err = _r == z3.unsat
        code = FE(*seqs, z3.IntVal(0), *caps)
        if not no_err:
            ip.guard([(k, code == KIND_CODE[k]) for k in errs])
        else:
            ip.path.notes.append("comprehension element errors excluded pointwise")
        ip.path.assume(code == 0)
    result = FV(*seqs, z3.IntVal(0), *caps)
    is_map = not g.ifs and (not errs or no_err)
    if is_map:
        n_len = z3.Length(seqs[0])
        for sq in seqs[1:]:
            n_len = z3.If(z3.Length(sq) < n_len, z3.Length(sq), n_len)
        elem_at = lambda j: EV(*[seqs[c][j] for c in range(m)], j, *caps)
        _emit_map_lemma(ip, FV, EV, EK, m, f_params, keep_proved_pointwise=bool(errs))
        ip.path.assume(z3.Length(result) == n_len)
        ip.path.add_qfact(lambda j: z3.Implies(z3.And(j >= 0, j < n_len), result[j] == elem_at(j)))
    return LList(None, result)


_TPL = {}


def _emit_map_lemma(ip, FV, EV, EK, m, f_params, keep_proved_pointwise=False):
    """Pointwise characterisation of a map comprehension (no filter, no element error):
         L(i):  len(F(xs, i)) = max(0, n - i)   and   for 0 <= j < n - i:  F(xs, i)[j] = Elt(xs[i + j], i + j)
    proved by induction on the start index (downwards): the step VC assumes L(i + 1) instantiated at j - 1 and proves
    L(i) at an arbitrary j; the base i >= n is the definition.  The induction is carried out once per arity on a
    *template*: the same recursion scheme over an uninterpreted element function (so the proof cannot depend on what
    the element expression is); every CompVal function is an instance of the scheme by construction.  Per function
    only the validity of its keep-condition is a separate obligation."""
    from .engine import Obligation
    if m not in _TPL:
        elt = z3.Function(f"tpl_elt{m}", *([V.Val] * m), V.I, V.Val)
        T = z3.RecFunction(f"TplMap{m}", *([V.VS] * m), V.I, V.VS)
        ss, i = [z3.Const(f"ts{c}", V.VS) for c in range(m)], z3.Int("ti")
        stop = z3.Or([i < 0] + [i >= z3.Length(sq) for sq in ss])
        z3.RecAddDefinition(T, ss + [i], z3.If(stop, z3.Empty(V.VS), z3.Concat(z3.Unit(elt(*[sq[i] for sq in ss], i)), T(*ss, i + 1))))
        _TPL[m] = (T, elt)
        T, elt = _TPL[m]
        ls = [z3.Const(f"lm_s{c}", V.VS) for c in range(m)]
        li, lj = z3.Int("lm_i"), z3.Int("lm_j")
        n = z3.Length(ls[0])
        for sq in ls[1:]:
            n = z3.If(z3.Length(sq) < n, z3.Length(sq), n)
        F = lambda k: T(*ls, k)
        e_at = lambda k: elt(*[sq[k] for sq in ls], k)
        base = Obligation(f"lemma:map-comprehension/{m}#base", [li >= n], z3.Length(F(li)) == 0, kind="lemma")
        unfolded = F(li) == z3.Concat(z3.Unit(e_at(li)), F(li + 1))
        unfold = Obligation(f"lemma:map-comprehension/{m}#unfold", [li >= 0, li < n], unfolded, kind="lemma")
        # the induction steps use the function only through the unfolding equation (their hypothesis), so they are stated
        # for an arbitrary function G satisfying it: no recursive definition in these queries (z3 is unstable on them)
        Tu = z3.Function(f"TplMapU{m}", *([V.VS] * m), V.I, V.VS)
        G = lambda k: Tu(*ls, k)
        unfolded_g = G(li) == z3.Concat(z3.Unit(e_at(li)), G(li + 1))
        ih_len = z3.Length(G(li + 1)) == n - li - 1
        s_len = Obligation(f"lemma:map-comprehension/{m}#step-len", [li >= 0, li < n, unfolded_g, ih_len],
                           z3.Length(G(li)) == n - li, kind="lemma")
        s_head = Obligation(f"lemma:map-comprehension/{m}#step-head", [li >= 0, li < n, unfolded_g, lj == 0],
                            G(li)[lj] == e_at(li + lj), kind="lemma")
        s_tail = Obligation(f"lemma:map-comprehension/{m}#step-tail",
                            [li >= 0, li < n, unfolded_g, ih_len, lj > 0, lj < n - li, G(li + 1)[lj - 1] == e_at(li + lj)],
                            G(li)[lj] == e_at(li + lj), kind="lemma")
        ip.path.obligations += [base, unfold, s_len, s_head, s_tail]
    name = FV.name()
    if name in LEMMAS_EMITTED or keep_proved_pointwise:
        return          # (keep-condition already shown for an arbitrary element under the path condition)
    LEMMAS_EMITTED.add(name)
    e0 = [z3.Const(f"lm_e{c}", V.Val) for c in range(m)]
    ip.path.obligations.append(Obligation(f"lemma:{name}#keep-valid", [], EK(*e0, z3.Int("lm_i"), *f_params), kind="lemma"))


def fold_genexp(ip, fname, node, fr):
    """any / all / sum applied directly to a generator expression (lazy, short-circuiting)."""
    from .interp import Frame
    if len(node.generators) != 1:
        raise Unsupported("fold over nested generators")
    g = node.generators[0]
    it = ip.eval(g.iter, fr)
    items = ip.try_iter_concrete(it) if not isinstance(it, Z) else None
    if items is not None:
        acc = C(0)
        for x in items:
            env = fr.env
            ip.assign_target(g.target, x, fr)
            if not all(ip.truth(ip.eval(c, fr)) for c in g.ifs):
                continue
            v = ip.eval(node.elt, fr)
            if fname == "sum":
                from .builtins_model import _as_num
                acc = ip.binop("Add", acc, _as_num(ip, v))
                continue
            t = ip.truth(v)
            if fname == "any" and t:
                return C(True)
            if fname == "all" and not t:
                return C(False)
        return acc if fname == "sum" else C(fname == "all")
    xs = ip.iter_seq(it)
    elem_cls = getattr(it, "elem_cls", None)
    ckey = (fname, elem_cls) + env_key(node, fr.env)
    e = _BODY_CACHE[ckey][0] if ckey in _BODY_CACHE else V.fresh("elt")

    def body(sub):
        env = dict(fr.env)
        f2 = Frame(fr.func, env, fr.fn_globals, fr.cls_ctx, fr.name)
        sub.assign_target(g.target, Z(e, elem_cls) if elem_cls is not None else Z(e), f2)
        for c in g.ifs:
            if not sub.truth(sub.eval(c, f2)):
                return None
        v = sub.eval(node.elt, f2)
        if fname == "sum":
            return v
        t = sub.z_truth(v)
        return C(t) if isinstance(t, bool) else ZBool(t)
    outcomes = explore_cached(ip, ckey, body, e)
    skip = z3.Or([c for c, (tag, v) in outcomes if tag == "val" and v is None] or [z3.BoolVal(False)])
    val, errs = merge_values(ip, [(c, o) for c, o in outcomes if not (o[0] == "val" and o[1] is None)])
    if val is None:
        val = V.VBool(z3.BoolVal(False))
    err = _err_code(errs)
    if fname == "sum":
        num = z3.If(V.is_bool(val), z3.If(V.Val.b(val), z3.IntVal(1), z3.IntVal(0)), V.Val.i(val))
        if not z3.is_true(z3.simplify(z3.BoolVal(True))):
            pass
        (cnum, cskip, cerr), params, caps = _canon(e, [num, z3.simplify(skip), err])
        # sum of non-integral elements is not modelled: obligation-free assumption recorded
        ip.assumptions_used.add("sum(genexp): elements are bools / ints (holds for every use in valida.callables)")
        found = lookup_equiv("sum", [cnum, cskip, cerr], params)
        if found is None:
            n = n_funcs()
            sorts = [p.sort() for p in params]
            FS = z3.RecFunction(f"SumVal{n}", V.VS, V.I, *sorts, V.I)
            FE = z3.RecFunction(f"SumErr{n}", V.VS, V.I, *sorts, V.I)
            s, i = z3.Const("cs", V.VS), z3.Int("ci")
            at = lambda t: z3.substitute(t, (CANON_E, s[i]))
            z3.RecAddDefinition(FS, [s, i] + params, z3.If(z3.Or(i < 0, i >= z3.Length(s)), z3.IntVal(0), z3.If(
                at(cskip), FS(s, i + 1, *params), at(cnum) + FS(s, i + 1, *params))))
            z3.RecAddDefinition(FE, [s, i] + params, z3.If(z3.Or(i < 0, i >= z3.Length(s)), z3.IntVal(0), z3.If(
                at(cerr) != 0, at(cerr), FE(s, i + 1, *params))))
            found = (FS, FE)
            remember("sum", [cnum, cskip, cerr], params, found)
        FS, FE = found
        if errs:
            code = FE(xs, z3.IntVal(0), *caps)
            ip.guard([(k, code == KIND_CODE[k]) for k in errs])
            ip.path.assume(code == 0)
        return ZInt(FS(xs, z3.IntVal(0), *caps))
    b = V.Val.b(val)
    (cb, cskip, cerr), params, caps = _canon(e, [b, z3.simplify(skip), err])
    found = lookup_equiv(fname, [cb, cskip, cerr], params)
    if found is None:
        n = n_funcs()
        sorts = [p.sort() for p in params]
        FB = z3.RecFunction(f"{fname.title()}Val{n}", V.VS, V.I, *sorts, V.B)
        FE = z3.RecFunction(f"{fname.title()}Err{n}", V.VS, V.I, *sorts, V.I)
        s, i = z3.Const("cs", V.VS), z3.Int("ci")
        at = lambda t: z3.substitute(t, (CANON_E, s[i]))
        decisive = at(cb) if fname == "any" else z3.Not(at(cb))
        z3.RecAddDefinition(FB, [s, i] + params, z3.If(z3.Or(i < 0, i >= z3.Length(s)), z3.BoolVal(fname == "all"), z3.If(
            z3.And(z3.Not(at(cskip)), decisive), z3.BoolVal(fname == "any"), FB(s, i + 1, *params))))
        # the first element that raises *before* a decisive element makes the fold raise
        z3.RecAddDefinition(FE, [s, i] + params, z3.If(z3.Or(i < 0, i >= z3.Length(s)), z3.IntVal(0), z3.If(
            at(cerr) != 0, at(cerr), z3.If(z3.And(z3.Not(at(cskip)), decisive), z3.IntVal(0), FE(s, i + 1, *params)))))
        found = (FB, FE)
        remember(fname, [cb, cskip, cerr], params, found)
    FB, FE = found
    if errs:
        code = FE(xs, z3.IntVal(0), *caps)
        ip.guard([(k, code == KIND_CODE[k]) for k in errs])
        ip.path.assume(code == 0)
    return ZBool(FB(xs, z3.IntVal(0), *caps))


_FOLD_SEQ = {}


def fold_seq(ip, fname, seq):
    """any / all / sum of an already computed symbolic sequence of values."""
    if fname not in _FOLD_SEQ:
        s, i = z3.Const("fs", V.VS), z3.Int("fi")
        if fname == "sum":
            F = z3.RecFunction("SumSeq", V.VS, V.I, V.I)
            body = z3.If(z3.Or(i < 0, i >= z3.Length(s)), z3.IntVal(0), V.intval(s[i]) + F(s, i + 1))
        else:
            F = z3.RecFunction(f"{fname.title()}Seq", V.VS, V.I, V.B)
            dec = V.truth(s[i]) if fname == "any" else z3.Not(V.truth(s[i]))
            body = z3.If(z3.Or(i < 0, i >= z3.Length(s)), z3.BoolVal(fname == "all"),
                         z3.If(dec, z3.BoolVal(fname == "any"), F(s, i + 1)))
        z3.RecAddDefinition(F, [s, i], body)
        from . import specfun
        specfun.register_feasibility_only(F, [s, i], body)       # unfolded to a bounded depth in feasibility / spec-function queries
        _FOLD_SEQ[fname] = F
    F = _FOLD_SEQ[fname]
    if fname == "sum":
        ip.assumptions_used.add("sum(seq): elements are bools / ints")
        return ZInt(F(seq, z3.IntVal(0)))
    return ZBool(F(seq, z3.IntVal(0)))


def sorted_seq(ip, xs, key, kwargs):
    if getattr(ip, "frame_only", False):
        return LList(None, V.fresh("sorted", V.VS), fresh=True)
    raise Unsupported("sorted over a symbolic sequence")


_MERGED_CACHE = {}


def merged_bool(ip, thunk, key=None):
    """Truth of a boolean-valued expression over all its paths as one z3 Bool: OR of (path condition AND value);
    a raising path contributes False.  Cached on `key` (expression + values of its variables): the exploration is
    context-free.  Quantified facts registered while exploring are re-registered on a cache hit."""
    if key is not None:
        key = key + (getattr(ip, "clause_mode", None), len(ip.path.qfacts))
        if key in _MERGED_CACHE:
            term, new_q = _MERGED_CACHE[key]
            for q in new_q:
                ip.path.add_qfact(q)
            return term
    n_q = len(ip.path.qfacts)
    outcomes = explore_body(ip, thunk)
    parts = []
    for c, (tag, v) in outcomes:
        if tag != "val":
            continue
        t = ip.z_truth(v)
        if t is True:
            parts.append(c)
        elif t is not False:
            parts.append(z3.And(c, t))
    term = z3.Or(parts) if parts else z3.BoolVal(False)
    if key is not None:
        _MERGED_CACHE[key] = (term, list(ip.path.qfacts[n_q:]))
    return term
