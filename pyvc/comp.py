"""Comprehensions, generator expressions and folds (any / all / sum) over *symbolic* sequences.

The element expression is executed symbolically once for a fresh element constant (all its paths, merged
into one term per outcome), lambda-lifted over the constants it captures, and turned into recursive z3
functions of an index that reproduce Python's evaluation order exactly: element errors propagate, and
any/all stop at the first decisive element.  Functions are hash-consed on their canonical body, so the
same comprehension text in the code and in a contract denotes the same function (DESIGN §2.6).
"""
import ast

import z3

from . import vals as V
from .engine import Engine, Path, PathEnd
from .sym import Z, C, LList, LTuple, ZBool, ZInt, ZSeq, Unsupported

_FUNCS = {}          # canonical key -> dict of RecFunctions
CANON_E = z3.Const("elt!canon", V.Val)
KIND_CODE = {k: i + 1 for i, k in enumerate(V.EXC)}
CODE_KIND = {v: k for k, v in KIND_CODE.items()}


def free_consts(terms):
    seen, out = set(), []

    def walk(t):
        if t.get_id() in seen:
            return
        seen.add(t.get_id())
        if z3.is_const(t) and t.decl().kind() == z3.Z3_OP_UNINTERPRETED:
            out.append(t)
            return
        for c in t.children():
            walk(c)
    for t in terms:
        walk(t)
    return out


_BODY_CACHE = {}


def value_key(v):
    if isinstance(v, Z):
        return ("z", v.t.get_id(), id(v.cls))
    if isinstance(v, ZBool):
        return ("b", v.b.get_id())
    if isinstance(v, ZInt):
        return ("i", v.i.get_id())
    if isinstance(v, ZSeq):
        return ("s", v.s.get_id(), v.kind)
    if isinstance(v, C):
        x = v.v
        return ("c", x) if isinstance(x, (type(None), bool, int, float, str)) else ("co", id(x))
    if isinstance(v, LTuple):
        return ("t",) + tuple(value_key(i) for i in v.items)
    if isinstance(v, LList) and not v.concrete:
        return ("l", v.seq.get_id())
    return ("id", id(v))


def env_key(node, env):
    names = sorted({n.id for n in ast.walk(node) if isinstance(n, ast.Name)})
    return (id(node),) + tuple((n, value_key(env[n])) for n in names if n in env)


def explore_cached(ip, key, thunk, e=None):
    """explore_body with a cache on (expression node, values of the variables it mentions): the exploration is
    context-free, so its outcomes depend on nothing else (the element constant is cached with them)."""
    if key not in _BODY_CACHE:
        _BODY_CACHE[key] = (e, explore_body(ip, thunk))
    return _BODY_CACHE[key][1]


def explore_body(ip, thunk, context_free=True):
    """Run thunk(sub_interp) on every path from the current state; returns [(cond, ('val', v) | ('raise', kind))]."""
    from .interp import Interp, PyRaise
    outer = ip.path
    eng = Engine(feas_timeout_ms=outer.engine.feas_timeout_ms)
    base = 0 if context_free else len(outer.pc)
    outcomes = []

    def run(p):
        # context-free: the body is explored without the caller's path condition, so that the same expression yields
        # the same merged term (and hence the same recursive function) at every site
        base_pc = [] if context_free else list(outer.pc)
        p.pc = list(base_pc)
        sub = Interp(p, ip.program, ip.contracts, ip.verifying)
        sub.depth = ip.depth
        sub.modifies_ok = ip.modifies_ok
        try:
            v = thunk(sub)
            out = ("val", v)
        except PyRaise as e:
            out = ("raise", e.kind)
        finally:
            ip.assumptions_used |= sub.assumptions_used
            ip.inlined |= sub.inlined
            ip.contract_calls |= sub.contract_calls
        for ob in p.obligations:
            outer.obligations.append(ob)
        cond = z3.And(p.pc[base:]) if len(p.pc) > base else z3.BoolVal(True)
        outcomes.append((cond, out))
    eng.explore(run, nested=True)
    return outcomes


def merge_values(ip, outcomes):
    """ite-merge of the 'val' outcomes into one Val term; err: {kind: cond}."""
    vals = [(c, ip.to_z(v)) for c, (tag, v) in outcomes if tag == "val"]
    errs = {}
    for c, (tag, v) in outcomes:
        if tag == "raise":
            errs[v] = z3.Or(errs[v], c) if v in errs else c
    if not vals:
        return None, errs
    term = vals[-1][1]
    for c, t in reversed(vals[:-1]):
        term = z3.If(c, t, term)
    return term, errs


def _err_code(errs):
    code = z3.IntVal(0)
    for kind, c in errs.items():
        code = z3.If(c, z3.IntVal(KIND_CODE[kind]), code)
    return code


def _canon(e, terms):
    """Replace captured constants (all free constants except e) by canonical parameters; return (canonical terms, params, actuals)."""
    caps = sorted([c for c in free_consts(terms) if not c.eq(e)], key=lambda c: (str(c.sort()), str(c)))
    params = [z3.Const(f"cap!{i}", c.sort()) for i, c in enumerate(caps)]
    sub = list(zip(caps, params)) + [(e, CANON_E)]
    return [z3.substitute(t, *sub) for t in terms], params, caps


def lookup_equiv(kind, terms, params):
    """An already defined function family whose canonical body is *semantically* equal (z3-valid equality of every
    component over the same canonical parameters), else None.  (Syntactic keys are not stable: z3's simplifier orders
    commutative arguments by ast id.)"""
    sig = (kind, tuple(str(p.sort()) for p in params), len(terms))
    for (k2, terms2, funcs) in _FUNCS.get(sig, []):
        s = z3.Solver()
        s.set("timeout", 3000)
        s.add(z3.Not(z3.And([a == b for a, b in zip(terms, terms2)])))
        if s.check() == z3.unsat:
            return funcs
    return None


def remember(kind, terms, params, funcs):
    sig = (kind, tuple(str(p.sort()) for p in params), len(terms))
    _FUNCS.setdefault(sig, []).append((kind, terms, funcs))


def n_funcs():
    return sum(len(v) for v in _FUNCS.values())


def build_comprehension(ip, node, g, xs, fr):
    """[elt for target in xs if conds] with xs a z3 Seq(Val)."""
    from .interp import Frame, PyRaise
    ckey = ("comp",) + env_key(node, fr.env)
    e = _BODY_CACHE[ckey][0] if ckey in _BODY_CACHE else V.fresh("elt")

    def body(sub):
        env = dict(fr.env)
        f2 = Frame(fr.func, env, fr.fn_globals, fr.cls_ctx, fr.name)
        sub.assign_target(g.target, Z(e), f2)
        keep = True
        for c in g.ifs:
            if not sub.truth(sub.eval(c, f2)):
                keep = False
                break
        if not keep:
            return None
        return sub.eval(node.elt, f2)
    outcomes = explore_cached(ip, ckey, body, e)
    keep_cond = z3.Or([c for c, (tag, v) in outcomes if tag == "val" and v is not None] or [z3.BoolVal(False)])
    val, errs = merge_values(ip, [(c, o) for c, o in outcomes if not (o[0] == "val" and o[1] is None)])
    if val is None:
        val = V.VNone
    err = _err_code(errs)
    (cval, ckeep, cerr), params, caps = _canon(e, [val, z3.simplify(keep_cond), err])
    found = lookup_equiv("comp", [cval, ckeep, cerr], params)
    if found is None:
        n = n_funcs()
        sorts = [p.sort() for p in params]
        FV = z3.RecFunction(f"CompVal{n}", V.VS, V.I, *sorts, V.VS)
        FE = z3.RecFunction(f"CompErr{n}", V.VS, V.I, *sorts, V.I)
        s, i = z3.Const("cs", V.VS), z3.Int("ci")
        at = lambda t: z3.substitute(t, (CANON_E, s[i]))
        z3.RecAddDefinition(FV, [s, i] + params, z3.If(z3.Or(i < 0, i >= z3.Length(s)), z3.Empty(V.VS), z3.If(
            at(ckeep), z3.Concat(z3.Unit(at(cval)), FV(s, i + 1, *params)), FV(s, i + 1, *params))))
        z3.RecAddDefinition(FE, [s, i] + params, z3.If(z3.Or(i < 0, i >= z3.Length(s)), z3.IntVal(0), z3.If(
            at(cerr) != 0, at(cerr), FE(s, i + 1, *params))))
        found = (FV, FE, bool(errs))
        remember("comp", [cval, ckeep, cerr], params, found)
    FV, FE, may_err = found
    if errs:
        code = FE(xs, z3.IntVal(0), *caps)
        ip.guard([(k, code == KIND_CODE[k]) for k in errs])
        ip.path.assume(code == 0)
    return LList(None, FV(xs, z3.IntVal(0), *caps))


def fold_genexp(ip, fname, node, fr):
    """any / all / sum applied directly to a generator expression (lazy, short-circuiting)."""
    from .interp import Frame
    if len(node.generators) != 1:
        raise Unsupported("fold over nested generators")
    g = node.generators[0]
    it = ip.eval(g.iter, fr)
    items = ip.try_iter_concrete(it) if not isinstance(it, Z) else None
    if items is not None:
        acc = C(0)
        for x in items:
            env = fr.env
            ip.assign_target(g.target, x, fr)
            if not all(ip.truth(ip.eval(c, fr)) for c in g.ifs):
                continue
            v = ip.eval(node.elt, fr)
            if fname == "sum":
                from .builtins_model import _as_num
                acc = ip.binop("Add", acc, _as_num(ip, v))
                continue
            t = ip.truth(v)
            if fname == "any" and t:
                return C(True)
            if fname == "all" and not t:
                return C(False)
        return acc if fname == "sum" else C(fname == "all")
    xs = ip.iter_seq(it)
    ckey = (fname,) + env_key(node, fr.env)
    e = _BODY_CACHE[ckey][0] if ckey in _BODY_CACHE else V.fresh("elt")

    def body(sub):
        env = dict(fr.env)
        f2 = Frame(fr.func, env, fr.fn_globals, fr.cls_ctx, fr.name)
        sub.assign_target(g.target, Z(e), f2)
        for c in g.ifs:
            if not sub.truth(sub.eval(c, f2)):
                return None
        v = sub.eval(node.elt, f2)
        if fname == "sum":
            return v
        t = sub.z_truth(v)
        return C(t) if isinstance(t, bool) else ZBool(t)
    outcomes = explore_cached(ip, ckey, body, e)
    skip = z3.Or([c for c, (tag, v) in outcomes if tag == "val" and v is None] or [z3.BoolVal(False)])
    val, errs = merge_values(ip, [(c, o) for c, o in outcomes if not (o[0] == "val" and o[1] is None)])
    if val is None:
        val = V.VBool(z3.BoolVal(False))
    err = _err_code(errs)
    if fname == "sum":
        num = z3.If(V.is_bool(val), z3.If(V.Val.b(val), z3.IntVal(1), z3.IntVal(0)), V.Val.i(val))
        if not z3.is_true(z3.simplify(z3.BoolVal(True))):
            pass
        (cnum, cskip, cerr), params, caps = _canon(e, [num, z3.simplify(skip), err])
        # sum of non-integral elements is not modelled: obligation-free assumption recorded
        ip.assumptions_used.add("sum(genexp): elements are bools / ints (holds for every use in valida.callables)")
        found = lookup_equiv("sum", [cnum, cskip, cerr], params)
        if found is None:
            n = n_funcs()
            sorts = [p.sort() for p in params]
            FS = z3.RecFunction(f"SumVal{n}", V.VS, V.I, *sorts, V.I)
            FE = z3.RecFunction(f"SumErr{n}", V.VS, V.I, *sorts, V.I)
            s, i = z3.Const("cs", V.VS), z3.Int("ci")
            at = lambda t: z3.substitute(t, (CANON_E, s[i]))
            z3.RecAddDefinition(FS, [s, i] + params, z3.If(z3.Or(i < 0, i >= z3.Length(s)), z3.IntVal(0), z3.If(
                at(cskip), FS(s, i + 1, *params), at(cnum) + FS(s, i + 1, *params))))
            z3.RecAddDefinition(FE, [s, i] + params, z3.If(z3.Or(i < 0, i >= z3.Length(s)), z3.IntVal(0), z3.If(
                at(cerr) != 0, at(cerr), FE(s, i + 1, *params))))
            found = (FS, FE)
            remember("sum", [cnum, cskip, cerr], params, found)
        FS, FE = found
        if errs:
            code = FE(xs, z3.IntVal(0), *caps)
            ip.guard([(k, code == KIND_CODE[k]) for k in errs])
            ip.path.assume(code == 0)
        return ZInt(FS(xs, z3.IntVal(0), *caps))
    b = V.Val.b(val)
    (cb, cskip, cerr), params, caps = _canon(e, [b, z3.simplify(skip), err])
    found = lookup_equiv(fname, [cb, cskip, cerr], params)
    if found is None:
        n = n_funcs()
        sorts = [p.sort() for p in params]
        FB = z3.RecFunction(f"{fname.title()}Val{n}", V.VS, V.I, *sorts, V.B)
        FE = z3.RecFunction(f"{fname.title()}Err{n}", V.VS, V.I, *sorts, V.I)
        s, i = z3.Const("cs", V.VS), z3.Int("ci")
        at = lambda t: z3.substitute(t, (CANON_E, s[i]))
        decisive = at(cb) if fname == "any" else z3.Not(at(cb))
        z3.RecAddDefinition(FB, [s, i] + params, z3.If(z3.Or(i < 0, i >= z3.Length(s)), z3.BoolVal(fname == "all"), z3.If(
            z3.And(z3.Not(at(cskip)), decisive), z3.BoolVal(fname == "any"), FB(s, i + 1, *params))))
        # the first element that raises *before* a decisive element makes the fold raise
        z3.RecAddDefinition(FE, [s, i] + params, z3.If(z3.Or(i < 0, i >= z3.Length(s)), z3.IntVal(0), z3.If(
            at(cerr) != 0, at(cerr), z3.If(z3.And(z3.Not(at(cskip)), decisive), z3.IntVal(0), FE(s, i + 1, *params)))))
        found = (FB, FE)
        remember(fname, [cb, cskip, cerr], params, found)
    FB, FE = found
    if errs:
        code = FE(xs, z3.IntVal(0), *caps)
        ip.guard([(k, code == KIND_CODE[k]) for k in errs])
        ip.path.assume(code == 0)
    return ZBool(FB(xs, z3.IntVal(0), *caps))


_FOLD_SEQ = {}


def fold_seq(ip, fname, seq):
    """any / all / sum of an already computed symbolic sequence of values."""
    if fname not in _FOLD_SEQ:
        s, i = z3.Const("fs", V.VS), z3.Int("fi")
        if fname == "sum":
            F = z3.RecFunction("SumSeq", V.VS, V.I, V.I)
            z3.RecAddDefinition(F, [s, i], z3.If(z3.Or(i < 0, i >= z3.Length(s)), z3.IntVal(0), V.intval(s[i]) + F(s, i + 1)))
        else:
            F = z3.RecFunction(f"{fname.title()}Seq", V.VS, V.I, V.B)
            dec = V.truth(s[i]) if fname == "any" else z3.Not(V.truth(s[i]))
            z3.RecAddDefinition(F, [s, i], z3.If(z3.Or(i < 0, i >= z3.Length(s)), z3.BoolVal(fname == "all"),
                                                  z3.If(dec, z3.BoolVal(fname == "any"), F(s, i + 1))))
        _FOLD_SEQ[fname] = F
    F = _FOLD_SEQ[fname]
    if fname == "sum":
        ip.assumptions_used.add("sum(seq): elements are bools / ints")
        return ZInt(F(seq, z3.IntVal(0)))
    return ZBool(F(seq, z3.IntVal(0)))


def sorted_seq(ip, xs, key, kwargs):
    raise Unsupported("sorted over a symbolic sequence")
