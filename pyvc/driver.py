"""Driver: builds the program table from the tree under test, loads the sidecar contracts, generates
the obligations of the functions that serve a property, discharges them (16 processes), decodes
counter-models and replays them on the real code."""
import importlib
import inspect
import json
import multiprocessing as mp
import os
import sys
import time
import traceback

import z3

HERE = os.path.dirname(os.path.dirname(os.path.abspath(__file__)))
SRC = os.environ.get("VALIDA_SRC", "/repo")

_STATE = {}


def load_all():
    if "program" in _STATE:
        return _STATE["program"], _STATE["contracts"]
    if HERE not in sys.path:
        sys.path.insert(0, HERE)
    from .program import Program
    from . import contracts as CT
    program = Program(SRC)
    import ast
    for pkg in ("spec", "contracts"):
        d = os.path.join(HERE, pkg)
        for fn in sorted(os.listdir(d)):
            if fn.endswith(".py") and fn != "__init__.py":
                m = importlib.import_module(f"{pkg}.{fn[:-3]}")
                src = open(m.__file__).read()
                program.sources[m.__file__] = src
                tree = ast.parse(src)
                program.trees[m.__file__] = tree
                for node in ast.walk(tree):
                    if isinstance(node, (ast.FunctionDef, ast.Lambda)):
                        k = (m.__file__, node.lineno)
                        if k in program.by_line and isinstance(node, ast.Lambda) and isinstance(program.by_line[k], ast.Lambda):
                            raise RuntimeError(f"two lambdas on one line in {m.__file__}:{node.lineno} (keep contract lambdas on separate lines)")
                        program.by_line.setdefault(k, node)
    _STATE["program"], _STATE["contracts"] = program, CT.REGISTRY
    return program, CT.REGISTRY


# ----------------------------------------------------------------------------------------------- model decoding
def decode(model, t, depth=0):
    """z3 Val term under a model -> Python value (JSON-like; types as type objects)."""
    from . import vals as V
    v = model.eval(t, model_completion=True)
    return _decode_val(v)


def _decode_seq(s):
    out = []
    if z3.is_app(s):
        k = s.decl().kind()
        if k == z3.Z3_OP_SEQ_EMPTY:
            return []
        if k == z3.Z3_OP_SEQ_UNIT:
            return [_decode_val(s.arg(0))]
        if k == z3.Z3_OP_SEQ_CONCAT:
            for c in s.children():
                out += _decode_seq(c)
            return out
    raise ValueError(f"cannot decode sequence {s}")


def _decode_val(v):
    from . import vals as V
    name = v.decl().name()
    if name == "VNone":
        return None
    if name == "VBool":
        return z3.is_true(v.arg(0))
    if name == "VInt":
        return v.arg(0).as_long()
    if name == "VFloat":
        a = v.arg(0)
        return float(a.numerator_as_long()) / float(a.denominator_as_long())
    if name == "VStr":
        return v.arg(0).as_string()
    if name == "VList":
        return _decode_seq(v.arg(0))
    if name == "VTuple":
        return tuple(_decode_seq(v.arg(0)))
    if name == "VDict":
        ks, vs = _decode_seq(v.arg(0)), _decode_seq(v.arg(1))
        return {_hashable(k): x for k, x in zip(ks, vs)}
    if name == "VType":
        return V.TYPE_OBJS.get(v.arg(0).as_long(), object)
    if name == "VRange":
        return range(v.arg(0).as_long(), v.arg(1).as_long())
    raise ValueError(f"cannot decode {v}")


def _hashable(k):
    return tuple(k) if isinstance(k, list) else k


# ----------------------------------------------------------------------------------------------- verification of one contract
def verify_contract(qn, timeout_ms, only_variant=None):
    """-> plain-data dict: obligations [(name, kind, status, solver_s, model/repr)], paths, faults, assumptions"""
    from .engine import Engine, discharge, PathEnd
    from .interp import Interp, PyRaise
    from .sym import Unsupported, SObj, Z, LList
    from .contract_apply import clause_bool
    from .contracts import Shape
    program, contracts = load_all()
    con = contracts[qn]
    f = getattr(con, "func_obj", None) or program.resolve(qn)
    out = {"qualname": qn, "obligations": [], "paths": 0, "fault": None, "assumptions": set(), "unsupported": None,
           "segment": None, "inlined": set(), "contract_calls": set(), "raised_kinds": set()}
    _STATE["partial"] = out
    from . import specfun as _sf
    _sf.FORCE_FUEL[0] = bool(getattr(con, "fuel", False))
    if f is None:
        out["unsupported"] = f"function {qn} not found in the tree under test"
        return out
    out["segment"] = program.segment(f)
    node = program.node_of(f)
    variants = con.variants or [{}]
    t_start = time.time()
    for vi, variant in enumerate(variants):
        if only_variant is not None and vi != only_variant:
            continue
        eng = Engine()
        eng.no_feasibility = bool(con.frame_only)
        obs = []

        def run(path):
            ip = Interp(path, program, contracts, verifying=qn)
            ip.frame_only = ip.opaque_objects = bool(con.frame_only)
            try:
                _run_one(ip, path, con, f, node, variant, vi)
            except Unsupported as e:
                if not path.trace and not path.obligations:
                    raise                      # nothing of the function is within reach
                # this path leaves the supported subset: it is undecided, the other paths are still verified
                out.setdefault("unsupported_paths", []).append(str(e))
                path.obligations = [o for o in path.obligations if o.kind != "canary"]
                from .engine import Obligation
                u = Obligation(f"{qn}#path-out-of-reach", path.pc, z3.BoolVal(False), kind="unsupported", info={"why": str(e)})
                path.obligations.append(u)
            finally:
                out["stores_checked"] = out.get("stores_checked", 0) + getattr(ip, "stores_checked", 0)
                out["assumptions"] |= ip.assumptions_used
                out["inlined"] |= ip.inlined
                out["contract_calls"] |= ip.contract_calls
        def on_path(p, pi):
            out["paths"] += 1
            obs = []
            for ob in p.obligations:
                ob.name = f"{ob.name}@v{vi}p{pi}"
                ob.path_index = pi
                if getattr(p, "no_invariant", None):
                    ob.info = dict(ob.info or {}, no_invariant=sorted(set(p.no_invariant)))
                if getattr(p, "unsure", False) and ob.kind == "canary":
                    ob.info = dict(ob.info or {}, unsure=True)
                obs.append((ob, getattr(p, "param_terms", {}), getattr(p, "param_recipes", {})))
            for ob, params, recipes in obs:
                if ob.kind == "unsupported":
                    # a path that left the subset only matters if it can be taken at all (a specification expression may
                    # have forked on a case the code's own path condition excludes)
                    discharge(ob, timeout_ms)
                    if ob.status == "proved":
                        out["dead_unsupported_paths"] = out.get("dead_unsupported_paths", 0) + 1
                        continue
                    out["obligations"].append({"name": ob.name, "kind": "unsupported", "status": "unknown", "solver_s": 0.0, "backend": None,
                                               "reason": "path leaves the verifier's subset: " + ob.info["why"], "info": ob.info, "model": None})
                    continue
                discharge(ob, timeout_ms)
                rec = {"name": ob.name if ob.name.startswith(qn) else f"{qn}#{ob.name}", "kind": ob.kind, "status": ob.status,
                       "second_opinion": getattr(ob, "second_opinion", None),
                       "solver_s": round(ob.solver_s, 4), "backend": ob.backend, "reason": ob.reason, "info": ob.info, "model": None}
                if ob.kind == "canary":
                    # a canary must NOT be provable: 'failed' (sat) means the end of the path is reachable
                    rec["status"] = {"failed": "alive", "proved": "dead", "unknown": "canary-unknown"}[ob.status]
                elif ob.status == "failed" and ob.model is not None:
                    m, vals_ok, pyvals = {}, True, {}
                    for pname, term in params.items():
                        try:
                            pyvals[pname] = decode(ob.model, term)
                            m[pname] = repr(pyvals[pname])
                        except Exception:
                            vals_ok = False
                            try:
                                m[pname] = str(ob.model.eval(term, model_completion=True))[:300]
                            except Exception:
                                m[pname] = "?"
                    rec["model"] = m
                    from .contracts import Const as _Const
                    for k, sh in variant.items():
                        if isinstance(sh, _Const):
                            pyvals.setdefault(k, sh.value)
                            m.setdefault(k, repr(sh.value))
                    has_obj = any(r[0] in ("o", "d", "ll") for r in recipes.values())
                    if vals_ok and not has_obj and not any("." in k for k in pyvals):
                        try:
                            rec["replay"] = replay_model(program, con, f, node, pyvals)
                        except Exception as e:
                            rec["replay"] = {"reproduced": False, "error": repr(e)}
                    else:
                        try:
                            values = {k: build_from_recipe(program, ob.model, r) for k, r in recipes.items()}
                            rec["replay"] = replay_objects(program, con, f, node, values)
                        except Exception as e:
                            rec["replay"] = {"reproduced": False, "error": repr(e)[:300]}
                    if not (rec.get("replay") or {}).get("reproduced") and con.witnesses is not None:
                        consts = {k: sh.value for k, sh in variant.items() if isinstance(sh, _Const)}
                        import inspect as _insp2
                        for w in (con.witnesses(consts) if _insp2.signature(con.witnesses).parameters else con.witnesses()):
                            try:
                                o2 = replay_objects(program, con, f, node, {**consts, **w})
                            except Exception:
                                continue
                            if o2.get("reproduced"):
                                o2["source"] = "concrete witness of the contract's witness list (the counter-model's opaque parts could not be rebuilt)"
                                rec["replay"] = o2
                                break
                    if isinstance(rec.get("replay"), dict):
                        # ghost constants of the family member (clauses may name them): needed again by ./check --replay
                        gc = {k: sh.value for k, sh in variant.items() if isinstance(sh, _Const) and k.startswith("_")
                              and isinstance(sh.value, (bool, int, str, type(None)))}
                        if gc:
                            rec["replay"]["ghost_consts"] = gc
                    rec["variant"] = {k: repr(v)[:100] for k, v in variant.items()}
                    if (ob.info or {}).get("no_invariant") and not (rec.get("replay") or {}).get("reproduced"):
                        rec["status"] = "unknown"
                        rec["reason"] = ("loop without an invariant in the contract: " + "; ".join(ob.info["no_invariant"]) +
                                         " - the proof no longer matches the code and no failing input was found: undecided")
                out["obligations"].append(rec)
        try:
            paths = eng.explore(run, on_path=on_path)
        except Unsupported as e:
            out["unsupported"] = str(e)
            return out
        except RecursionError:
            out["unsupported"] = "interpreter recursion limit"
            return out
        except RuntimeError as e:
            if "path explosion" not in str(e):
                raise
            out["unsupported"] = f"more than {eng.max_paths} paths (undecided, not a violation)"
            return out
    if con.frame_only and not any(o["kind"] == "frame" and o["status"] != "proved" for o in out["obligations"]):
        # the frame obligation of the function: every store executed on every explored path targets an object allocated
        # in the activation or a location of its `modifies` clause (decided by the executor's provenance tracking;
        # stores into pre-existing objects would have produced failing `frame[...]` obligations above)
        out["obligations"].append({"name": f"{qn}#modifies-only[{', '.join(con.modifies) or 'nothing'}]", "kind": "frame",
                                   "status": "proved", "solver_s": 0.0, "backend": "pyvc-provenance", "reason": None,
                                   "info": {"paths": out["paths"], "stores_checked": out.get("stores_checked", 0)}, "model": None})
    out["wall_s"] = round(time.time() - t_start, 2)
    return out


def _recipe(ip, v):
    from .sym import Z, C, LList, LTuple, LDict, SObj, ZBool, ZInt, ZSeq
    from . import vals as V
    if isinstance(v, Z):
        return ("z", v.t)
    if isinstance(v, ZBool):
        return ("b", v.b)
    if isinstance(v, ZInt):
        return ("i", v.i)
    if isinstance(v, ZSeq):
        return ("s", v.s, v.kind)
    if isinstance(v, LList) and v.concrete:
        return ("ll", [_recipe(ip, i) for i in v.items])
    if isinstance(v, LList):
        return ("l", ip.seq_of(v))
    if isinstance(v, LTuple):
        return ("t", [_recipe(ip, i) for i in v.items])
    if isinstance(v, LDict):
        return ("d", [(_recipe(ip, k), _recipe(ip, x)) for k, x in v.pairs])
    if isinstance(v, C):
        return ("c", v.v)
    if isinstance(v, SObj):
        return ("o", v.cls, {k: _recipe(ip, x) for k, x in v.attrs.items()})
    return ("?", None)


def build_from_recipe(program, model, r):
    """Python object for a parameter under a counter-model (valida objects rebuilt field by field)."""
    tag = r[0]
    if tag == "z":
        v = model.eval(r[1], model_completion=True)
        return _decode_any(program, v)
    if tag == "b":
        return z3.is_true(model.eval(r[1], model_completion=True))
    if tag == "i":
        return model.eval(r[1], model_completion=True).as_long()
    if tag in ("s", "l"):
        items = [_decode_any(program, x) for x in _seq_terms(model.eval(r[1], model_completion=True))]
        return tuple(items) if tag == "s" and r[2] == "tuple" else list(items)
    if tag == "t":
        return tuple(build_from_recipe(program, model, i) for i in r[1])
    if tag == "ll":
        return [build_from_recipe(program, model, i) for i in r[1]]
    if tag == "d":
        return {_hashable(build_from_recipe(program, model, k)): build_from_recipe(program, model, x) for k, x in r[1]}
    if tag == "c":
        return r[1]
    if tag == "o":
        o = object.__new__(r[1])
        for k, x in r[2].items():
            o.__dict__[k] = build_from_recipe(program, model, x)
        return o
    raise ValueError("cannot rebuild parameter")


def _seq_terms(s):
    k = s.decl().kind()
    if k == z3.Z3_OP_SEQ_EMPTY:
        return []
    if k == z3.Z3_OP_SEQ_UNIT:
        return [s.arg(0)]
    if k == z3.Z3_OP_SEQ_CONCAT:
        out = []
        for c in s.children():
            out += _seq_terms(c)
        return out
    raise ValueError(f"cannot decode sequence {s}")


def _decode_any(program, v):
    name = v.decl().name()
    if name == "VFunc":
        return program.funcs_by_id[v.arg(0).as_long()]
    if name == "VType":
        from . import vals as V
        i = v.arg(0).as_long()
        return program.classes_by_id.get(i) or V.TYPE_OBJS.get(i, object)
    if name in ("VList", "VTuple"):
        items = [_decode_any(program, x) for x in _seq_terms(v.arg(0))]
        return items if name == "VList" else tuple(items)
    if name == "VObj":
        # an object value of a program class (elements of TupleOf(elem_cls), ObjVal): rebuilt without running __init__; a field
        # the solver left arbitrary and that cannot be rebuilt becomes None - the replay on the real code decides, not the model
        cls = program.classes_by_id.get(v.arg(0).as_long())
        names = getattr(program, "_inst_attrs", {}).get(cls)
        fields = _seq_terms(v.arg(1))
        if cls is None or names is None or len(fields) != len(names):
            raise ValueError(f"cannot decode {v}")
        o = object.__new__(cls)
        for n, ft in zip(names, fields):
            try:
                val = _decode_any(program, ft)
            except ValueError:
                val = None
            object.__setattr__(o, n, val)
        return o
    if name == "VDict":
        ks = [_decode_any(program, x) for x in _seq_terms(v.arg(0))]
        vs = [_decode_any(program, x) for x in _seq_terms(v.arg(1))]
        return {_hashable(k): x for k, x in zip(ks, vs)}
    return _decode_val(v)


def replay_objects(program, con, f, node, values):
    """Replay with rebuilt objects as arguments (methods, object-valued parameters)."""
    import inspect as _insp
    import copy as _copy
    pos = [a.arg for a in node.args.posonlyargs + node.args.args]
    args = [values[p] for p in pos]

    def clause(fn, extra=None):
        env = dict(values)
        env.update(extra or {})
        return fn(**{k: env[k] for k in _insp.signature(fn).parameters})

    def show(x):
        try:
            d = getattr(x, "__dict__", None)
            if d is not None and getattr(type(x), "__module__", "").startswith("valida"):
                return f"<{type(x).__name__} " + ", ".join(f"{k}={show(v)}" for k, v in d.items()) + ">"
            if callable(x) and hasattr(x, "__name__"):
                return x.__name__
            return repr(x)
        except Exception:
            return "<?>"
    out = {"call": f"{f.__module__}.{f.__qualname__}(" + ", ".join(f"{p}={show(values[p])}" for p in pos) + ")", "args_terms": None}
    try:
        from vf.terms import enc
        out["object_args_terms"] = {p: enc(values[p]) for p in pos}
    except Exception:
        pass
    # pre-state of what the contract lets the function modify (old["param.attr"]), and of the parameters themselves
    old_state = {k: (_copy.deepcopy(v) if k in con.modifies else v) for k, v in values.items()}
    for m in con.modifies:
        if "." in m and m.split(".", 1)[0] in values:
            try:
                old_state[m] = _copy.copy(getattr(values[m.split(".", 1)[0]], m.split(".", 1)[1]))
            except Exception:
                pass
    values = dict(values, old=old_state)
    try:
        if con.requires is not None and not clause(con.requires):
            return {"reproduced": False, "error": "counter-model does not satisfy the executable precondition", **out}
    except Exception as e:
        return {"reproduced": False, "error": f"precondition not evaluable natively: {e!r}", **out}
    try:
        result = f(*args)
    except Exception as e:
        kind = type(e).__name__
        out["observed"] = f"raises {kind}: {e}"
        c = con.raises.get(kind)
        ok = c is not None and (bool(c) if not callable(c) else bool(clause(c)))
        out["reproduced"] = not ok
        out["required"] = f"may raise only {sorted(con.raises)}"
        return out
    out["observed"] = f"returns {show(result)}"
    bad = []
    if con.ensures is not None:
        try:
            if not clause(con.ensures, {"result": result}):
                bad.append("ensures clause is false for this result")
        except Exception as e:
            bad.append(f"ensures not evaluable: {e!r}")
            out["reproduced"] = False
            out["required"] = "; ".join(bad)
            return out
    out["reproduced"] = bool(bad)
    out["required"] = "; ".join(bad) if bad else "contract holds natively on this input"
    return out


def replay_model(program, con, f, node, pyvals):
    """Run the real function natively on the decoded counter-model and evaluate the contract natively."""
    import inspect as _insp
    from vf.terms import enc
    pos = [a.arg for a in node.args.posonlyargs + node.args.args]
    args = [pyvals[p] for p in pos if p in pyvals]
    if len(args) != len(pos):
        return {"reproduced": False, "error": "model does not cover every parameter"}
    if node.args.vararg is not None:
        args += list(pyvals.get("*" + node.args.vararg.arg, ()))
    kwargs = dict(pyvals.get("**" + node.args.kwarg.arg, {})) if node.args.kwarg is not None else {}
    named = {p: pyvals[p] for p in pos}
    if node.args.vararg is not None:
        named[node.args.vararg.arg] = tuple(pyvals.get("*" + node.args.vararg.arg, ()))
    if node.args.kwarg is not None:
        named[node.args.kwarg.arg] = kwargs
    for k, v in pyvals.items():             # ghost constants of a family member (names start with "_")
        if k.startswith("_") and k not in named:
            named[k] = v

    def clause(fn, extra=None):
        env = dict(named)
        env.update(extra or {})
        want = list(_insp.signature(fn).parameters)
        return fn(**{k: env[k] for k in want})
    call = f"{f.__module__}.{f.__qualname__}(" + ", ".join([repr(a) for a in args] + [f"{k}={v!r}" for k, v in kwargs.items()]) + ")"
    out = {"call": call, "args_terms": None}
    try:
        out["args_terms"] = enc([list(args), {str(k): v for k, v in kwargs.items()}])
    except Exception:
        pass
    import copy as _copy
    try:
        result = f(*_copy.deepcopy(args), **_copy.deepcopy(kwargs))
    except Exception as e:
        kind = type(e).__name__
        out["observed"] = f"raises {kind}: {e}"
        c = con.raises.get(kind)
        ok = c is not None and (bool(c) if not callable(c) else bool(clause(c)))
        out["reproduced"] = not ok
        out["required"] = f"may raise only {sorted(con.raises)} and {kind} only when its raises-clause holds"
        return out
    out["observed"] = f"returns {result!r}"
    bad = []
    for k, c in con.raises.items():
        if callable(c) and clause(c):
            bad.append(f"contract requires {k} to be raised for these arguments")
    if con.ensures is not None:
        try:
            if not clause(con.ensures, {"result": result}):
                bad.append("ensures clause is false for this result")
        except Exception as e:
            bad.append(f"the specification raises {type(e).__name__} where the code returns")
    out["reproduced"] = bool(bad)
    out["required"] = "; ".join(bad) if bad else "contract holds natively on this input"
    return out


def _run_one(ip, path, con, f, node, variant, vi):
    from .interp import PyRaise
    from .sym import Unsupported, SObj, Z, LList, C, LDict
    from .contract_apply import clause_bool
    from .contracts import Shape, AnyVal
    from . import vals as V
    qn = con.qualname
    # ---- symbolic arguments from the declared shapes
    pnames = [a.arg for a in node.args.posonlyargs + node.args.args]
    shapes = dict(con.params)
    shapes.update(variant)
    env, params = {}, {}
    args, kwargs = [], {}
    for pn in pnames:
        sh = shapes.get(pn, AnyVal())
        v = sh.make(ip, pn) if isinstance(sh, Shape) else ip.wrap(sh)
        env[pn] = v
        args.append(v)
        if isinstance(v, Z):
            params[pn] = v.t
        elif isinstance(v, (LList,)) and not v.concrete:
            params[pn] = V.VList(v.seq)
        elif isinstance(v, SObj):
            for an, av in v.attrs.items():
                if isinstance(av, Z):
                    params[f"{pn}.{an}"] = av.t
    for extra, sh in variant.items():           # ghost parameters of a family member (used by the clauses only)
        if extra not in pnames and extra.startswith("_"):
            env[extra] = sh.make(ip, extra) if isinstance(sh, Shape) else ip.wrap(sh)
    if node.args.vararg is not None:
        sh = shapes.get(node.args.vararg.arg)
        if sh is not None:
            v = sh.make(ip, node.args.vararg.arg)
            env[node.args.vararg.arg] = v
            from .interp import StarArgs
            items = ip.try_iter_concrete(v) if not isinstance(v, Z) else None
            if items is not None:
                args += items
            else:
                args.append(StarArgs(v))
            if hasattr(v, "s"):
                params["*" + node.args.vararg.arg] = V.VTuple(v.s)
    if node.args.kwarg is not None:
        sh = shapes.get(node.args.kwarg.arg)
        if sh is not None:
            v = sh.make(ip, node.args.kwarg.arg)
            env[node.args.kwarg.arg] = v
            kwargs["**"] = v
            if isinstance(v, Z):
                params["**" + node.args.kwarg.arg] = v.t
    for ko in node.args.kwonlyargs:
        sh = shapes.get(ko.arg)
        if sh is not None:
            v = sh.make(ip, ko.arg)
            env[ko.arg] = v
            kwargs[ko.arg] = v
    path.param_terms = params
    path.param_recipes = {k: _recipe(ip, v) for k, v in env.items()}
    # modifies clause: which pre-existing objects may be written
    for m in con.modifies:
        pname = m.split(".", 1)[0]
        o = env.get(pname)
        if isinstance(o, SObj):
            ip.modifies_ok.add((o.oid, m.split(".", 1)[1] if "." in m else "*"))
            held = o.attrs.get(m.split(".", 1)[1]) if "." in m else None
            if held is not None and not isinstance(held, (Z, C)):
                ip.modifies_ok.add(id(held))          # the container the attribute holds may be updated in place as well
        elif o is not None:
            if "." not in m and isinstance(o, Z):
                # a parameter the function may modify (deeply): treated like a fresh deep copy inside the body
                from .builtins_model import FreshZ
                o2 = FreshZ(o.t, o.cls, True)
                env[pname] = o2
                args[:] = [o2 if a is o else a for a in args]
                kwargs.update({k: o2 for k, v2 in kwargs.items() if v2 is o})
                o = o2
            ip.modifies_ok.add(id(o))
            if "." not in m:
                # ... and so are the containers nested in an in-place container given as that parameter
                def _nest(c):
                    from .sym import LList as _LL, LDict as _LD
                    kids = (c.items or []) if isinstance(c, _LL) else [v for _, v in c.pairs] if isinstance(c, _LD) else []
                    for x in kids:
                        if isinstance(x, (_LL, _LD)):
                            ip.modifies_ok.add(id(x))
                            _nest(x)
                _nest(o)
            if "." in m and isinstance(o, Z):
                ip.modifies_ok.add(("zattr", o.t.get_id(), m.split(".", 1)[1]))
    if con.requires is not None:
        path.assume(clause_bool(ip, con.requires, env, f"{qn}#requires", mode="assume"))
    def _snap(v):
        from .sym import LList as _LL
        if isinstance(v, _LL) and v.concrete:
            return _LL(list(v.items), fresh=False)        # the container may be updated in place: the pre-state is a copy
        return v
    def _deep(v):
        from .sym import LList as _LL, LDict as _LD
        if isinstance(v, _LL) and v.concrete:
            return _LL([_deep(x) for x in v.items], fresh=False)
        if isinstance(v, _LD):
            return _LD([(k, _deep(x)) for k, x in v.pairs], fresh=False)
        return v
    old = LDict([(C(k), (_deep(v) if k in con.modifies else v)) for k, v in env.items()] +
                [(C(m), _snap(env[m.split(".", 1)[0]].attrs[m.split(".", 1)[1]])) for m in con.modifies
                 if "." in m and isinstance(env.get(m.split(".", 1)[0]), SObj) and m.split(".", 1)[1] in env[m.split(".", 1)[0]].attrs])
    ip.entry_env = dict(env)
    try:
        if "**" in kwargs or any(type(a).__name__ == "StarArgs" for a in args):
            result = _call_with_symbolic_star(ip, f, node, env)
        else:
            result = ip.call_function(f, args, kwargs, force_inline=True)
    except PyRaise as e:
        kinds = list(con.raises)
        if con.raises_any:
            path.oblige(f"{qn}#canary", z3.BoolVal(False), kind="canary")
            return
        if e.kind not in con.raises:
            path.oblige(f"{qn}#raises[{e.kind}]-not-allowed", z3.BoolVal(False), kind="raises", info={"raised": e.kind, "msg": e.msg})
        else:
            c = con.raises[e.kind]
            goal = clause_bool(ip, c, env, f"{qn}#raises[{e.kind}]") if callable(c) else z3.BoolVal(bool(c))
            path.oblige(f"{qn}#raises[{e.kind}]-only-when", goal, kind="raises", info={"raised": e.kind})
        path.oblige(f"{qn}#canary", z3.BoolVal(False), kind="canary")
        return
    # normal return
    for k, c in con.raises.items():
        if callable(c):
            path.oblige(f"{qn}#raises[{k}]-whenever", z3.Not(clause_bool(ip, c, env, f"{qn}#raises[{k}]")), kind="raises",
                        info={"expected": k})
    if con.ensures is not None and not con.frame_only:
        env2 = dict(env)
        env2["result"] = result
        env2["old"] = old
        try:
            goal = clause_bool(ip, con.ensures, env2, f"{qn}#ensures")
        except PyRaise as e:
            # the specification expression raises on this path although the code returned normally
            goal = z3.BoolVal(False)
            path.notes.append(f"spec raises {e.kind} where the code returns")
        path.oblige(f"{qn}#ensures", goal, kind="ensures")
    path.oblige(f"{qn}#canary", z3.BoolVal(False), kind="canary")


def _call_with_symbolic_star(ip, f, node, env):
    """Execute the body with *args / **kwargs bound to symbolic containers directly."""
    from .interp import Frame, ReturnSig
    from .sym import C
    fr = Frame(f, dict(env), f.__globals__, ip.defining_class(f), f"{f.__module__}:{f.__qualname__}")
    if node.args.args:
        fr.func_first_arg = node.args.args[0].arg
    ip.depth += 1
    try:
        ip.exec_block(node.body, fr)
    except ReturnSig as r:
        return r.value
    finally:
        ip.depth -= 1
    return C(None)


# ----------------------------------------------------------------------------------------------- property level
class _Budget(Exception):
    pass


_FIRED = [False]


def _alarm(sig, frm):
    import signal
    _FIRED[0] = True
    signal.alarm(1)          # re-arm: an exception raised inside a z3 ctypes callback is swallowed
    raise _Budget()


def _budget_for(qn, timeout_ms):
    """Seconds one (function, variant) may take; contracts that need a larger solver budget get a proportionally larger one."""
    base = int(os.environ.get("PYVC_FUNCTION_BUDGET_S", "150" if timeout_ms <= 10000 else "900"))
    con = load_all()[1].get(qn)
    if getattr(con, "frame_only", False) and timeout_ms <= 10000 and "PYVC_FUNCTION_BUDGET_S" not in os.environ:
        base = 60           # the three large parsers do not finish in the quick tier anyway; what was decided is kept
    need = getattr(con, "min_timeout_ms", 0)
    return max(base, 6 * need // 1000) if need > timeout_ms else base


def _worker(args):
    import signal
    qn, vi, timeout_ms = args
    budget = _budget_for(qn, timeout_ms)
    timeout_ms = max(timeout_ms, getattr(load_all()[1][qn], "min_timeout_ms", 0))
    signal.signal(signal.SIGALRM, _alarm)
    signal.alarm(budget)
    try:
        r = verify_contract(qn, timeout_ms, vi)
    except Exception as e:
        # the alarm may surface inside a z3 ctypes callback as another exception type
        if not (_FIRED[0] or isinstance(e, _Budget)):
            return {"qualname": qn, "obligations": [], "paths": 0, "fault": traceback.format_exc(), "assumptions": [],
                    "unsupported": None, "segment": None, "inlined": [], "contract_calls": []}
        program, contracts = load_all()
        f = getattr(contracts[qn], "func_obj", None) or program.resolve(qn)
        part = _STATE.get("partial") or {}
        if part.get("qualname") == qn and part.get("obligations"):
            # the budget ran out while obligations were being discharged: what was decided so far is reported, the
            # rest of the function is undecided
            r = dict(part)
            r["unsupported_variants"] = [f"budget of {budget}s exceeded after {len(part['obligations'])} obligations; the remaining ones are undecided"]
            for k in ("assumptions", "inlined", "contract_calls", "raised_kinds"):
                r[k] = sorted(r.get(k, []))
            return r
        return {"qualname": qn, "obligations": [], "paths": 0, "fault": None, "assumptions": [], "inlined": [],
                "contract_calls": [], "segment": program.segment(f) if f else None,
                "unsupported": f"exploration budget of {budget}s exceeded (undecided, not a violation)"}
    finally:
        signal.alarm(0)
    for k in ("assumptions", "inlined", "contract_calls", "raised_kinds"):
        r[k] = sorted(r.get(k, []))
    return r


def _child(conn, task):
    try:
        conn.send(_worker(task))
    except Exception:
        conn.send({"qualname": task[0], "obligations": [], "paths": 0, "fault": traceback.format_exc(), "assumptions": [],
                   "unsupported": None, "segment": None, "inlined": [], "contract_calls": []})
    finally:
        conn.close()


def _run_tasks(ctx, tasks, timeout_ms, width=16):
    """One process per (function, variant), at most `width` at a time; a process that overruns its budget (z3 can
    ignore its timeout inside recursive-function propagation) is killed and the function reported as undecided."""
    pending = list(enumerate(tasks))
    running, results = [], {}
    while pending or running:
        while pending and len(running) < width:
            i, t = pending.pop(0)
            a, b = ctx.Pipe(duplex=False)
            p = ctx.Process(target=_child, args=(b, t))
            p.start()
            b.close()
            running.append((i, t, p, a, time.time()))
        still = []
        for (i, t, p, a, t0) in running:
            if a.poll(0):
                try:
                    results[i] = a.recv()
                except EOFError:
                    results[i] = None
                p.join(5)
                continue
            if not p.is_alive():
                results[i] = None
                continue
            if time.time() - t0 > _budget_for(t[0], timeout_ms) + 20:
                p.terminate()
                p.join(2)
                if p.is_alive():
                    p.kill()
                results[i] = "killed"
                continue
            still.append((i, t, p, a, t0))
        running = still
        if running:
            time.sleep(0.05)
    out = []
    program, contracts = load_all()
    for i, t in enumerate(tasks):
        r = results.get(i)
        if r is None or r == "killed":
            f = getattr(contracts[t[0]], "func_obj", None) or program.resolve(t[0])
            r = {"qualname": t[0], "obligations": [], "paths": 0, "fault": None, "assumptions": [], "inlined": [],
                 "contract_calls": [], "segment": program.segment(f) if f else None,
                 "unsupported": ("solver did not return within the function budget (process killed); undecided"
                                 if r == "killed" else "worker process ended without a result; undecided")}
        out.append(r)
    return out


def run_property(prop, tier, seed):
    program, contracts = load_all()
    mine = [qn for qn, c in contracts.items() if prop in c.serves and not c.assumed and not c.inline]
    if not mine:
        return None
    timeout_ms = 10000 if tier == "quick" else 60000
    t0 = time.time()
    ctx = mp.get_context("fork")
    tasks = []
    for qn in mine:
        nv = len(contracts[qn].variants or [{}])
        tasks += [(qn, vi if nv > 1 else None, timeout_ms) for vi in range(nv)]
    parts = _run_tasks(ctx, tasks, timeout_ms)
    merged = {}
    for r in parts:
        m = merged.get(r["qualname"])
        if m is None:
            merged[r["qualname"]] = r
            continue
        m["obligations"] += r["obligations"]
        m["paths"] += r["paths"]
        for k in ("assumptions", "inlined", "contract_calls"):
            m[k] = sorted(set(m[k]) | set(r[k]))
        m["fault"] = m["fault"] or r["fault"]
        if r["unsupported"]:
            m.setdefault("unsupported_variants", []).append(r["unsupported"])
        for u in r.get("unsupported_variants", []):
            m.setdefault("unsupported_variants", []).append(u)
    results = [merged[qn] for qn in mine]
    return summarise(prop, tier, results, time.time() - t0, contracts)


def summarise(prop, tier, results, wall, contracts):
    failed, faults, undecided, functions = [], [], [], []
    n_ob = n_ok = 0
    solver_s = 0.0
    slow = []
    by_backend = {}
    canaries = {"alive": 0, "dead": 0, "canary-unknown": 0}
    second = {}
    assumptions = set()
    samples = []
    for r in results:
        if r["fault"]:
            faults.append(f"{r['qualname']}: {r['fault'][-1500:]}")
            continue
        fn = dict(r["segment"] or {"function": r["qualname"]})
        if r["unsupported"]:
            fn["status"] = "out-of-reach"
            fn["reason"] = r["unsupported"]
            functions.append(fn)
            undecided.append({"function": r["qualname"], "reason": r["unsupported"]})
            continue
        fn.update({"status": "under-contract", "paths": r["paths"], "inlined": r["inlined"], "uses_contracts_of": r["contract_calls"]})
        for u in r.get("unsupported_variants", []):
            undecided.append({"function": r["qualname"], "variant": "one family member", "reason": u})
        nf = 0
        for ob in r["obligations"]:
            if ob["kind"] == "canary":
                canaries[ob["status"]] = canaries.get(ob["status"], 0) + 1
                if ob["status"] == "dead" and not contracts[r["qualname"]].frame_only and not (ob.get("info") or {}).get("unsure"):
                    faults.append(f"vacuity: canary of {ob['name']} is provable (contradictory assumptions)")
                continue
            solver_s += ob["solver_s"]
            if ob["status"] not in ("proved", "failed"):
                # undecided (solver gave no answer, or the path left the verifier's subset): listed, not counted among the
                # obligations this run decided
                undecided.append({"obligation": ob["name"], "reason": ob["reason"]})
                continue
            n_ob += 1
            bk = ob["backend"] or "?"
            by_backend[bk] = by_backend.get(bk, 0) + 1
            slow.append((ob["solver_s"], ob["name"]))
            so = ob.get("second_opinion")
            if so:
                second[so] = second.get(so, 0) + 1
                if so == "sat":
                    faults.append(f"solver disagreement: {ob['name']} is unsat for z3 {z3.get_version_string()} and sat for /usr/bin/z3 4.8.12")
            if ob["status"] == "proved":
                n_ok += 1
                if len(samples) < 3:
                    samples.append({"obligation": ob["name"], "verdict": "proved (unsat)", "solver_s": ob["solver_s"]})
            elif ob["status"] == "failed":
                nf += 1
                rp = ob.get("replay") or {}
                failed.append({"name": ob["name"], "function": r["qualname"], "segment": r["segment"], "clause_kind": ob["kind"],
                               "info": ob["info"], "model": ob["model"], "variant": ob.get("variant"), "backend": ob["backend"],
                               "solver_s": ob["solver_s"], "replay": rp, "replayed": bool(rp.get("reproduced"))})
        cs = [o["status"] for o in r["obligations"] if o["kind"] == "canary"]
        if not r["obligations"] and not r.get("unsupported_variants"):
            faults.append(f"vacuity: {r['qualname']} produced no obligation at all (every path ended in a contradiction)")
        if cs and not any(c in ("alive", "canary-unknown") for c in cs):
            faults.append(f"vacuity: no path of {r['qualname']} reaches its end (all canaries provable)")
        fn["obligations"] = len([o for o in r["obligations"] if o["kind"] != "canary"])
        fn["failed"] = nf
        functions.append(fn)
        assumptions |= set(r["assumptions"])
    assumed = sorted(qn for qn, c in contracts.items() if c.assumed and prop in c.serves)
    return {
        "obligations": n_ob, "discharged": n_ok, "failed": failed, "faults": faults, "undecided": undecided,
        "functions": functions, "by_backend": by_backend, "solver_s": round(solver_s, 2),
        "slowest": [f"{n} {s:.2f}s" for s, n in sorted(slow, reverse=True)[:5]], "canaries": canaries,
        "second_opinion": ({"solver": "/usr/bin/z3 4.8.12 on the exported SMT-LIB text of a sample of the proved obligations",
                            "answers": second} if second else None),
        "checker_cmd": f"./check {prop} --tier {tier}  (pyvc: symbolic executor over ast of {SRC}/valida/*.py + z3 {z3.get_version_string()})",
        "trusted_base": TRUSTED_BASE + [f"assumed contract: {a}" for a in assumed],
        "assumptions": sorted(assumptions), "samples": samples, "wall_s": round(wall, 1),
        "level": "proof",
        "explanation": "obligations = VCs generated from the current source of the functions under contract; discharged = unsat answers; "
                       "undecided obligations are listed and are never counted as violations",
    }


TRUSTED_BASE = [
    "pyvc engine (ast front end, symbolic executor, frame tracking, VC construction): unverified, defended by canaries and mutation tests",
    "Python semantics as encoded in pyvc/vals.py + pyvc/builtins_model.py (exact on scalars, under-specified on containers; see DESIGN §2.3/§13)",
    "floats treated as mathematical reals; ints unbounded (exact)",
    "z3 " + z3.get_version_string(),
]


def replay_obligation(rec):
    """./check <ID> --replay <file> for a failed obligation: re-run the recorded call on the current tree."""
    program, contracts = load_all()
    print(f"replay: obligation {rec.get('name')} of {rec.get('function')}\n  counter-model: {rec.get('model')}")
    rp = rec.get("replay") or {}
    if rp.get("object_args_terms"):
        from vf.terms import dec
        qn = rec["function"]
        con, f = contracts[qn], program.resolve(qn)
        node = program.node_of(f)
        values = {k: dec(v) for k, v in rp["object_args_terms"].items()}
        values.update(rp.get("ghost_consts") or {})
        out = replay_objects(program, con, f, node, values)
        print(f"  call: {out['call']}\n  observed: {out.get('observed')}\n  required: {out.get('required')}\n  "
              f"{'REPRODUCED' if out.get('reproduced') else 'holds on this tree'}")
        return 1 if out.get("reproduced") else 0
    if not rp.get("args_terms"):
        print("  no concrete input was recorded for this obligation (no-failing-input-found)")
        return 0
    from vf.terms import dec
    qn = rec["function"]
    con, f = contracts[qn], program.resolve(qn)
    node = program.node_of(f)
    args, kwargs = dec(rp["args_terms"])
    pos = [a.arg for a in node.args.posonlyargs + node.args.args]
    pyvals = {p: a for p, a in zip(pos, args)}
    if node.args.vararg is not None:
        pyvals["*" + node.args.vararg.arg] = tuple(args[len(pos):])
    if node.args.kwarg is not None:
        pyvals["**" + node.args.kwarg.arg] = kwargs
    pyvals.update(rp.get("ghost_consts") or {})
    out = replay_model(program, con, f, node, pyvals)
    print(f"  call: {out['call']}\n  observed: {out.get('observed')}\n  required: {out.get('required')}\n  "
          f"{'REPRODUCED' if out['reproduced'] else 'holds on this tree'}")
    return 1 if out["reproduced"] else 0
