"""Cross-check of the executor's Python semantics against CPython (the guard DESIGN §2.3 promised).

The contracts of the comparison callables say "the result is `a < b`" with both sides interpreted by the same encoding,
so an error in the encoding of `<` would cancel out.  Here each function is explored once with fully symbolic arguments;
then, for concrete argument tuples, the path conditions are evaluated under the concrete values: exactly one path must be
taken, and its outcome (value, or exception class) must be what CPython gives for the real function on those values.
A path whose condition or value still contains an uninterpreted symbol for the given input is counted as `open`
(the encoding deliberately says nothing there); a disagreement is a checker fault.
"""
import itertools
import random

import z3

from . import vals as V
from .sym import Z, C


def explore_function(program, contracts, f, nparams):
    from .engine import Engine
    from .interp import Interp, PyRaise
    node = program.node_of(f)
    names = [a.arg for a in node.args.posonlyargs + node.args.args][:nparams]
    out = []
    eng = Engine()

    def run(path):
        ip = Interp(path, program, contracts, verifying=None)
        args = [Z(z3.Const(f"x!{n}", V.Val)) for n in names]
        try:
            r = ip.call_function(f, args, {}, force_inline=True)
            out.append((list(path.pc), ("ret", ip.to_z(r))))
        except PyRaise as e:
            out.append((list(path.pc), ("raise", e.kind)))
    eng.explore(run)
    return names, out


def _closed(t):
    """No uninterpreted symbol left (after simplification under concrete inputs)."""
    stack, seen = [t], set()
    while stack:
        x = stack.pop()
        if x.get_id() in seen:
            continue
        seen.add(x.get_id())
        if z3.is_app(x) and x.decl().kind() == z3.Z3_OP_UNINTERPRETED:
            return False
        stack.extend(x.children())
    return True


def crosscheck(program, contracts, f, samples):
    from .interp import Interp
    from .engine import Path, Engine
    from .driver import _decode_any
    ip = Interp(Path(Engine(), []), program, contracts, None)
    nparams = len(samples[0])
    names, paths = explore_function(program, contracts, f, nparams)
    stats = {"samples": 0, "agree": 0, "open": 0, "mismatch": []}
    for vals in samples:
        try:
            consts = [ip.const_to_z(v) for v in vals]
        except Exception:
            continue
        sub = [(z3.Const(f"x!{n}", V.Val), c) for n, c in zip(names, consts)]
        taken, open_ = [], False
        for pc, outcome in paths:
            cond = z3.simplify(z3.substitute(z3.And(pc) if pc else z3.BoolVal(True), *sub))
            if z3.is_true(cond):
                taken.append(outcome)
            elif not z3.is_false(cond):
                if not _closed(cond):
                    open_ = True
                    continue
                # closed but not reduced by the simplifier (recursive helper functions, string order): decided by the solver
                s1, s2 = z3.Solver(), z3.Solver()
                s1.set("timeout", 3000)
                s2.set("timeout", 3000)
                s1.add(cond)
                s2.add(z3.Not(cond))
                r1, r2 = s1.check(), s2.check()
                if r2 == z3.unsat and r1 == z3.sat:
                    taken.append(outcome)
                elif not (r1 == z3.unsat and r2 == z3.sat):
                    open_ = True
        stats["samples"] += 1
        if open_:
            stats["open"] += 1
            continue
        try:
            import copy
            native = ("ret", f(*copy.deepcopy(list(vals))))
        except Exception as e:
            native = ("raise", type(e).__name__)
        if len(taken) != 1:
            stats["mismatch"].append({"args": repr(vals), "problem": f"{len(taken)} paths taken", "native": repr(native)})
            continue
        tag, val = taken[0]
        if tag == "raise":
            ok = native[0] == "raise" and V.exc_isinstance(native[1], val) if hasattr(V, "exc_isinstance") else native == (tag, val)
            if native[0] != "raise":
                ok = False
            elif native[1] != val:
                try:
                    ok = val in [c.__name__ for c in __builtins__[native[1]].__mro__] if isinstance(__builtins__, dict) else val in [
                        c.__name__ for c in getattr(__builtins__, native[1]).__mro__]
                except Exception:
                    ok = False
            else:
                ok = True
        else:
            t = z3.simplify(z3.substitute(val, *sub))
            if not _closed(t):
                stats["open"] += 1
                continue
            # evaluate the closed term through a model (the simplifier leaves recursive functions and str.< alone)
            sv = z3.Solver()
            sv.set("timeout", 3000)
            rv = z3.Const("cc!result", V.Val)
            sv.add(rv == t)
            if sv.check() != z3.sat:
                stats["open"] += 1
                continue
            t = sv.model().eval(rv, model_completion=True)
            sv.add(rv != t)
            if sv.check() != z3.unsat:
                stats["open"] += 1            # the value is not determined by the encoding
                continue
            try:
                py = _decode_any(program, t)
            except Exception:
                stats["open"] += 1
                continue
            ok = native[0] == "ret" and type(py) is type(native[1]) and py == native[1]
        if ok:
            stats["agree"] += 1
        else:
            stats["mismatch"].append({"args": repr(vals), "executor": f"{tag} {val if tag == 'raise' else py!r}", "cpython": repr(native)})
    return stats


SCALARS = [None, True, False, 0, 1, -1, 2, 7, 10, 0.0, 1.5, -2.5, 2.0, "", "a", "b", "ab", "1", [], [1], [1, "a"], (), (1, 2), {}, {"a": 1},
           {"a": 1, "b": [2]}, [[1], 2], int, str, dict, list, float, bool]


def run_all(seed=1, per_function=400):
    from . import driver
    program, contracts = driver.load_all()
    import valida.callables as calls
    import inspect
    r = random.Random(seed)
    report = {}
    for name, f in sorted(vars(calls).items()):
        if not inspect.isfunction(f) or f.__module__ != "valida.callables" or name.startswith("_"):
            continue
        node = program.node_of(f)
        if node.args.vararg or node.args.kwarg:
            continue                      # *args / **kwargs callables: explored through their contracts only
        n = len(node.args.args)
        pool = list(itertools.product(SCALARS, repeat=n)) if len(SCALARS) ** n <= 40000 else None
        samples = r.sample(pool, min(per_function, len(pool))) if pool else [tuple(r.choice(SCALARS) for _ in range(n)) for _ in range(per_function)]
        try:
            report[name] = crosscheck(program, contracts, f, samples)
        except Exception as e:
            report[name] = {"error": repr(e)[:200]}
    return report


if __name__ == "__main__":
    import json, sys
    rep = run_all(int(sys.argv[1]) if len(sys.argv) > 1 else 1, int(sys.argv[2]) if len(sys.argv) > 2 else 300)
    tot = {"samples": 0, "agree": 0, "open": 0, "mismatch": 0}
    for k, v in rep.items():
        if "error" in v:
            print(k, "ERROR", v["error"])
            continue
        for kk in ("samples", "agree", "open"):
            tot[kk] += v[kk]
        tot["mismatch"] += len(v["mismatch"])
        print(f"{k:32s} samples {v['samples']:4d} agree {v['agree']:4d} open {v['open']:4d} mismatch {len(v['mismatch'])}")
        for m in v["mismatch"][:3]:
            print("      ", m)
    print(tot)
