"""Symbolic interpreter over the Python ast of the real source (accepted subset: DESIGN.md §2.1).

Concrete sub-computations are delegated to CPython; symbolic ones are encoded with pyvc/vals.py.
Control flow is ordinary Python control flow of this interpreter: exceptions of the interpreted
program are PyRaise, `return` is ReturnSig.  Forks go through Path.choose (decision replay).
"""
import ast
import builtins as _builtins
import copy as _copy
import enum
import inspect
import types

import z3

from . import vals as V
from .engine import PathEnd
from .program import loop_key
from .sym import (Z, C, LList, LTuple, LDict, LSet, SObj, BoundMethod, Closure, BuiltinMethod, SuperProxy, ZBool, ZInt,
                  ZSeq, Unsupported)


class PyRaise(Exception):
    LINE = [None]

    def __init__(self, kind, payload=None, msg=""):
        super().__init__(f"{kind}: {msg}")
        self.kind, self.payload, self.msg = kind, payload, f"{msg} [at {PyRaise.LINE[0]}]"


class ReturnSig(Exception):
    def __init__(self, value):
        self.value = value


class BreakSig(Exception):
    pass


class ContinueSig(Exception):
    pass


class ExcVal:
    """An exception instance value (raise X(...), except X as e)."""

    def __init__(self, kind, args=()):
        self.kind, self.args = kind, args


class Frame:
    def __init__(self, func, env, fn_globals, cls_ctx=None, name="?"):
        self.func, self.env, self.fn_globals, self.cls_ctx, self.name = func, env, fn_globals, cls_ctx, name


CONCRETE_SCALARS = (type(None), bool, int, float, str, bytes)
_NOT_CONCRETE = object()
MAX_DEPTH = 40


def is_exc_class(obj):
    return inspect.isclass(obj) and issubclass(obj, BaseException)


class Interp:
    def __init__(self, path, program, contracts, verifying=None):
        self.path, self.program, self.contracts = path, program, contracts
        self.depth = 0
        self.verifying = verifying          # qualname of the function under verification (its own contract is not used)
        self.frame_violations = []
        self.modifies_ok = set()            # (oid, attr) pairs and LList ids the current contract may modify
        self.opaque_calls = []
        self.assumptions_used = set()
        self.inlined = set()
        self.contract_calls = set()

    # =========================================================================================== conversion
    def to_z(self, v):
        if isinstance(v, Z):
            return v.t
        if isinstance(v, ZBool):
            return V.VBool(v.b)
        if isinstance(v, ZInt):
            return V.VInt(v.i)
        if isinstance(v, ZSeq):
            return V.VTuple(v.s) if v.kind == "tuple" else V.VList(v.s)
        if isinstance(v, C):
            return self.const_to_z(v.v)
        if isinstance(v, LList):
            return V.VList(self.seq_of(v))
        if isinstance(v, LTuple):
            return V.VTuple(V.mk_seq([self.to_z(i) for i in v.items]))
        if isinstance(v, LDict):
            return V.VDict(V.mk_seq([self.to_z(k) for k, _ in v.pairs]), V.mk_seq([self.to_z(x) for _, x in v.pairs]))
        if isinstance(v, LSet):
            return V.VSet(v.seq)
        if isinstance(v, SObj):
            if getattr(v, "by_ref", False):
                # an object that is only passed around (never inspected through the value): an opaque reference
                return z3.Const(f"ref!{v.name}", V.Val)
            names = sorted(v.attrs)
            return V.VObj(z3.IntVal(self.program.class_id(v.cls)), V.mk_seq([self.to_z(v.attrs[n]) for n in names]))
        if isinstance(v, UnknownMethod):
            return z3.Function(f"Field_{v.name.strip('<>')}", V.Val, V.Val)(v.recv.t)     # used as a value: a property / attribute
        if isinstance(v, (BoundMethod, Closure, BuiltinMethod)):
            return V.VOpaque(z3.IntVal(id(type(v)) % 100000))
        raise Unsupported(f"to_z: {type(v).__name__}")

    def const_to_z(self, x):
        if isinstance(x, CONCRETE_SCALARS) and not isinstance(x, bytes):
            return V.lit(x)
        if isinstance(x, (list, tuple, dict, range)):
            try:
                return V.lit(x)
            except TypeError:
                if isinstance(x, (list, tuple)):
                    s = V.mk_seq([self.const_to_z(i) for i in x])
                    return V.VList(s) if isinstance(x, list) else V.VTuple(s)
                if isinstance(x, dict):
                    return V.VDict(V.mk_seq([self.const_to_z(k) for k in x]), V.mk_seq([self.const_to_z(v) for v in x.values()]))
                raise
        if inspect.isclass(x):
            if self.program.is_ours(x):
                return V.VType(z3.IntVal(self.program.class_id(x)))
            return V.VType(z3.IntVal(V.type_id(x)))
        if inspect.isfunction(x) or inspect.ismethod(x) or inspect.isbuiltin(x):
            return V.VFunc(z3.IntVal(self.program.func_id(x)))
        if isinstance(x, enum.Enum):
            return V.VOpaque(z3.IntVal(abs(hash((type(x).__name__, x.name))) % 1000003))
        return V.VOpaque(z3.IntVal(abs(hash(repr(x))) % 1000003))

    def seq_of(self, v):
        """z3 Seq(Val) of the elements of a sequence-like executor value."""
        if isinstance(v, LList):
            return V.mk_seq([self.to_z(i) for i in v.items]) if v.concrete else v.seq
        if isinstance(v, LTuple):
            return V.mk_seq([self.to_z(i) for i in v.items])
        if isinstance(v, ZSeq):
            return v.s
        if isinstance(v, C) and isinstance(v.v, (list, tuple)):
            return V.mk_seq([self.const_to_z(i) for i in v.v])
        raise Unsupported(f"seq_of: {v!r}")

    def z_truth(self, v):
        """Truthiness as a Python bool or z3 Bool."""
        if isinstance(v, ZBool):
            return v.b
        if isinstance(v, ZInt):
            return v.i != 0
        if isinstance(v, C):
            return bool(v.v)
        if isinstance(v, LList):
            return len(v.items) > 0 if v.concrete else z3.Length(v.seq) > 0
        if isinstance(v, LTuple):
            return len(v.items) > 0
        if isinstance(v, LDict):
            return len(v.pairs) > 0
        if isinstance(v, LSet):
            return z3.Length(v.seq) > 0
        if isinstance(v, ZSeq):
            return z3.Length(v.s) > 0
        if isinstance(v, (SObj, BoundMethod, Closure, BuiltinMethod, ExcVal)):
            if isinstance(v, SObj):
                ln = self.class_lookup(v.cls, "__len__")
                if ln is not None:
                    r = self.call_function(ln, [v], {})
                    return self.z_truth(r) if not isinstance(r, ZInt) else r.i != 0
            return True
        if isinstance(v, Z):
            if getattr(self, "frame_only", False):
                return V.U_truth(v.t)        # frame-only: values are abstract, only consistency of repeated tests matters
            return V.truth(v.t)
        raise Unsupported(f"truth of {v!r}")

    def truth(self, v):
        return self.path.branch(self.z_truth(v))

    def guard(self, errs):
        """errs: [(kind, z3 Bool cond)]; forks into 'no error' and one path per possible error."""
        if getattr(self, "frame_only", False) and not self.try_depth():
            # frame-only, no enclosing handler: a raising path performs a prefix of the stores of the normal path,
            # so only the normal path is followed (obligations already emitted keep their own path condition)
            return
        errs = [(k, z3.simplify(c)) for k, c in errs]
        errs = [(k, c) for k, c in errs if not z3.is_false(c)]
        if not errs:
            return
        none = z3.Not(z3.Or([c for _, c in errs]))
        i = self.path.choose([none] + [c for _, c in errs])
        if i > 0:
            raise PyRaise(errs[i - 1][0], msg="(symbolic operand)")

    def try_depth(self):
        return self.__dict__.get("_try_depth", [0])[0]

    def is_concrete_scalar(self, v):
        return isinstance(v, C) and isinstance(v.v, CONCRETE_SCALARS)

    def wrap(self, x):
        """Wrap a concrete Python object produced by CPython."""
        if isinstance(x, (Z, C, LList, LTuple, LDict, LSet, SObj, BoundMethod, Closure, BuiltinMethod, ZBool, ZInt, ZSeq,
                          ExcVal, SuperProxy)):
            return x
        if isinstance(x, types.MethodType) and (inspect.isclass(x.__self__) or self.program.is_ours(x.__func__)):
            return BoundMethod(x.__func__, C(x.__self__))
        return C(x)

    # =========================================================================================== expressions
    def eval(self, node, fr):
        m = getattr(self, "e_" + type(node).__name__, None)
        if m is None:
            raise Unsupported(f"expression {type(node).__name__} at line {getattr(node, 'lineno', '?')}")
        return m(node, fr)

    def e_Constant(self, node, fr):
        return C(node.value)

    def e_Name(self, node, fr):
        n = node.id
        if n in fr.env:
            v = fr.env[n]
            if v is _UNBOUND:
                raise PyRaise("UnboundLocalError", msg=n)
            return v
        if n in fr.fn_globals:
            return self.wrap(fr.fn_globals[n])
        if hasattr(_builtins, n):
            return C(getattr(_builtins, n))
        if n in SPEC_BUILTINS:
            return C(SPEC_BUILTINS[n])
        raise PyRaise("NameError", msg=n)

    def e_JoinedStr(self, node, fr):
        parts = []
        conc = True
        for v in node.values:
            if isinstance(v, ast.Constant):
                parts.append(str(v.value))
            else:
                x = self.eval(v.value, fr)
                if self.is_concrete_scalar(x) and v.conversion == -1 and v.format_spec is None:
                    parts.append(format(x.v))
                elif isinstance(x, C) and not isinstance(x.v, CONCRETE_SCALARS):
                    try:
                        parts.append(repr(x.v) if v.conversion == 114 else str(x.v))
                    except Exception:
                        conc = False
                else:
                    conc = False
        if conc:
            return C("".join(parts))
        self.assumptions_used.add("f-string formatting of a non-literal value is an uninterpreted total function")
        return Z(V.VStr(V.fresh("fstr", V.S)))

    def e_FormattedValue(self, node, fr):
        return self.eval(node.value, fr)

    def e_Tuple(self, node, fr):
        return LTuple(self.eval_elts(node.elts, fr))

    def e_List(self, node, fr):
        return LList(self.eval_elts(node.elts, fr))

    def eval_elts(self, elts, fr):
        out = []
        for e in elts:
            if isinstance(e, ast.Starred):
                out += self.iter_concrete(self.eval(e.value, fr))
            else:
                out.append(self.eval(e, fr))
        return out

    def e_Set(self, node, fr):
        return LSet(V.mk_seq([self.to_z(self.eval(e, fr)) for e in node.elts]))

    def e_Dict(self, node, fr):
        pairs = []
        for k, v in zip(node.keys, node.values):
            if k is None:
                d = self.eval(v, fr)
                pairs += self.dict_pairs(d)
            else:
                pairs.append((self.eval(k, fr), self.eval(v, fr)))
        return LDict(self.merge_pairs(pairs))

    def merge_pairs(self, pairs):
        """Python's dict construction: a later item with an equal key replaces the value of the earlier one (the earlier key
        and its position are kept).  (Found missing by seeded change C13-D: an inverted table with a repeated value.)"""
        out = []
        for k, v in pairs:
            for i, (k0, _) in enumerate(out):
                r = self.py_eq(k0, k)
                if r is True or (r is not False and self.path.branch(r)):
                    out[i] = (k0, v)
                    break
            else:
                out.append((k, v))
        return out

    def e_Lambda(self, node, fr):
        return Closure(node, fr.env, fr.fn_globals)

    def e_IfExp(self, node, fr):
        if self.truth(self.eval(node.test, fr)):
            return self.eval(node.body, fr)
        return self.eval(node.orelse, fr)

    def e_BoolOp(self, node, fr):
        v = None
        for i, sub in enumerate(node.values):
            v = self.eval(sub, fr)
            if i == len(node.values) - 1:
                return v
            t = self.truth(v)
            if isinstance(node.op, ast.And) and not t:
                return v
            if isinstance(node.op, ast.Or) and t:
                return v
        return v

    def e_UnaryOp(self, node, fr):
        v = self.eval(node.operand, fr)
        if isinstance(node.op, ast.Not):
            t = self.z_truth(v)
            return C(not t) if isinstance(t, bool) else ZBool(z3.Not(t))
        if isinstance(node.op, ast.USub):
            if self.is_concrete_scalar(v):
                return C(-v.v)
            if isinstance(v, ZInt):
                return ZInt(-v.i)
            val, errs = V.sub_parts(V.lit(0), self.to_z(v))
            self.guard(errs)
            return Z(val)
        raise Unsupported("unary op")

    def e_Compare(self, node, fr):
        left = self.eval(node.left, fr)
        result = None
        for op, rn in zip(node.ops, node.comparators):
            right = self.eval(rn, fr)
            r = self.compare(op, left, right)
            if len(node.ops) == 1:
                return r
            if not self.truth(r):
                return r
            result = r
            left = right
        return result

    def compare(self, op, a, b):
        opn = type(op).__name__
        if opn in ("Is", "IsNot"):
            r = self.is_same(a, b)
            if isinstance(r, bool):
                return C(r if opn == "Is" else not r)
            return ZBool(r if opn == "Is" else z3.Not(r))
        if opn in ("In", "NotIn"):
            r = self.contains(b, a)
            if isinstance(r, bool):
                return C(r if opn == "In" else not r)
            return ZBool(r if opn == "In" else z3.Not(r))
        if isinstance(a, C) and isinstance(b, C) and not isinstance(a.v, SObj):
            try:
                import operator
                f = {"Eq": operator.eq, "NotEq": operator.ne, "Lt": operator.lt, "LtE": operator.le, "Gt": operator.gt,
                     "GtE": operator.ge}[opn]
                return C(f(a.v, b.v))
            except TypeError as e:
                raise PyRaise("TypeError", msg=str(e))
        if opn in ("Eq", "NotEq"):
            r = self.py_eq(a, b)
            if isinstance(r, bool):
                return C(r if opn == "Eq" else not r)
            return ZBool(r if opn == "Eq" else z3.Not(r))
        if isinstance(a, ZInt) and isinstance(b, (ZInt, C)) or isinstance(b, ZInt) and isinstance(a, (ZInt, C)):
            x, y = self.as_int(a), self.as_int(b)
            if x is not None and y is not None:
                return ZBool({"Lt": x < y, "LtE": x <= y, "Gt": x > y, "GtE": x >= y}[opn])
        za, zb = self.to_z(a), self.to_z(b)
        if getattr(self, "frame_only", False):
            U = z3.Function("U_cmp_" + opn, V.Val, V.Val, V.B)
            E = z3.Function("U_cmp_err", V.Val, V.Val, V.B)
            self.guard([("TypeError", E(za, zb))])
            return ZBool(U(za, zb))
        if opn == "Lt":
            val, err = V.lt_parts(za, zb)
        elif opn == "LtE":
            val, err = V.le_parts(za, zb)
        elif opn == "Gt":
            val, err = V.lt_parts(zb, za)
        else:
            val, err = V.le_parts(zb, za)
        self.guard([("TypeError", err)])
        return ZBool(val)

    def as_int(self, v):
        if isinstance(v, ZInt):
            return v.i
        if isinstance(v, C) and isinstance(v.v, int):
            return z3.IntVal(int(v.v))
        return None

    def is_same(self, a, b):
        if isinstance(a, C) and isinstance(b, C):
            return a.v is b.v
        if isinstance(a, (SObj, LList, LDict, LTuple)) or isinstance(b, (SObj, LList, LDict, LTuple)):
            if isinstance(a, C) or isinstance(b, C):
                return False
            if type(a) is type(b):
                return a is b
            return False
        # None / singleton checks on symbolic values
        if isinstance(a, C) and a.v is None:
            a, b = b, a
        if isinstance(b, C) and b.v is None:
            if isinstance(a, (ZBool, ZInt, ZSeq, BoundMethod, Closure, ExcVal, LSet)):
                return False
            return V.is_none(self.to_z(a))
        if isinstance(b, C) and isinstance(b.v, bool) and isinstance(a, (Z, ZBool)):
            za = self.to_z(a)
            return z3.And(V.is_bool(za), V.Val.b(za) == b.v)
        if isinstance(a, Z) and isinstance(b, Z):
            self.assumptions_used.add("`is` on two symbolic values is decided by value equality of their terms")
            return a.t == b.t
        if isinstance(a, Z) or isinstance(b, Z):
            other = b if isinstance(a, Z) else a
            if isinstance(other, C):
                return self.to_z(a if isinstance(a, Z) else b) == self.to_z(other)
        raise Unsupported(f"is: {a!r} {b!r}")

    def concrete_value(self, v):
        """The Python value of an executor value built from constants only (else _NOT_CONCRETE)."""
        if isinstance(v, C):
            return v.v if isinstance(v.v, (type(None), bool, int, float, str, list, tuple, dict)) else _NOT_CONCRETE
        if isinstance(v, (LList, LTuple)):
            items = getattr(v, "items", None)
            if items is None or (isinstance(v, LList) and not v.concrete):
                return _NOT_CONCRETE
            out = [self.concrete_value(i) for i in items]
            if any(o is _NOT_CONCRETE for o in out):
                return _NOT_CONCRETE
            return out if isinstance(v, LList) else tuple(out)
        if isinstance(v, LDict):
            out = {}
            for k, x in v.pairs:
                kk, xx = self.concrete_value(k), self.concrete_value(x)
                if kk is _NOT_CONCRETE or xx is _NOT_CONCRETE:
                    return _NOT_CONCRETE
                try:
                    out[kk] = xx
                except TypeError:
                    return _NOT_CONCRETE
            return out
        return _NOT_CONCRETE

    def py_eq(self, a, b):
        """Python == as bool / z3 Bool; dispatches to __eq__ of program classes."""
        for x, y in ((a, b), (b, a)):
            if isinstance(x, SObj):
                eqf = self.class_lookup(x.cls, "__eq__")
                if eqf is not None:
                    r = self.call_function(eqf, [x, y], {})
                    return self.z_truth(r)
                return x is y
        if isinstance(a, C) and isinstance(b, C):
            return a.v == b.v
        if isinstance(a, (C, LList, LTuple, LDict)) and isinstance(b, (C, LList, LTuple, LDict)):
            ca, cb = self.concrete_value(a), self.concrete_value(b)
            if ca is not _NOT_CONCRETE and cb is not _NOT_CONCRETE:
                return ca == cb                    # containers made of constants only: Python's own ==
        if isinstance(a, ZInt) or isinstance(b, ZInt):
            x, y = self.as_int(a), self.as_int(b)
            if x is not None and y is not None:
                return x == y
        if isinstance(a, ZBool) and isinstance(b, C) and isinstance(b.v, bool):
            return a.b if b.v else z3.Not(a.b)
        if isinstance(a, (LTuple, LList)) and isinstance(b, (LTuple, LList)) and type(a) is type(b):
            ia, ib = getattr(a, "items", None), getattr(b, "items", None)
            if ia is not None and ib is not None:
                if len(ia) != len(ib):
                    return False
                acc = []
                for x, y in zip(ia, ib):
                    r = self.py_eq(x, y)
                    if r is False:
                        return False
                    if r is not True:
                        acc.append(r)
                return z3.And(acc) if acc else True
        if isinstance(a, (BoundMethod, Closure)) or isinstance(b, (BoundMethod, Closure)):
            return a is b
        if getattr(self, "frame_only", False):
            return V.U_eq(self.to_z(a), self.to_z(b))
        return V.eq_b(self.to_z(a), self.to_z(b))

    def contains(self, c, x):
        if isinstance(c, ConcreteIter):
            c = LTuple(list(c.items))
        if isinstance(c, C) and isinstance(x, C):
            try:
                return x.v in c.v
            except TypeError as e:
                raise PyRaise("TypeError", msg=str(e))
        if isinstance(c, (LList, LTuple)) and getattr(c, "items", None) is not None:
            acc = []
            for it in c.items:
                r = self.py_eq(it, x)
                if r is True:
                    return True
                if r is not False:
                    acc.append(r)
            return z3.Or(acc) if acc else False
        if isinstance(c, C) and isinstance(c.v, (list, tuple, dict, set, frozenset)) and not isinstance(x, C):
            acc = []
            for it in c.v:
                r = self.py_eq(C(it), x)
                if r is True:
                    return True
                if r is not False:
                    acc.append(r)
            if isinstance(c.v, (dict, set, frozenset)):
                self.guard([("TypeError", z3.Not(V.hashable(self.to_z(x))))])
            return z3.Or(acc) if acc else False
        if isinstance(c, LDict):
            acc = []
            for k, _ in c.pairs:
                r = self.py_eq(k, x)
                if r is True:
                    return True
                if r is not False:
                    acc.append(r)
            return z3.Or(acc) if acc else False
        if isinstance(c, ZSeq):
            if c.kind == "keys":
                self.guard([("TypeError", z3.Not(V.hashable(self.to_z(x))))])
            return V.seq_has(c.s, self.to_z(x))
        if isinstance(c, LList):
            return V.seq_has(c.seq, self.to_z(x))
        if isinstance(c, LSet):
            self.guard([("TypeError", z3.Not(V.hashable(self.to_z(x))))])
            return V.seq_has(c.seq, self.to_z(x))
        if getattr(self, "frame_only", False):
            U = z3.Function("U_in", V.Val, V.Val, V.B)
            E = z3.Function("U_in_err", V.Val, V.Val, V.B)
            self.guard([("TypeError", E(self.to_z(c), self.to_z(x)))])
            return U(self.to_z(c), self.to_z(x))
        val, err = V.contains_parts(self.to_z(c), self.to_z(x))
        self.guard([("TypeError", err)])
        return val

    def e_BinOp(self, node, fr):
        a, b = self.eval(node.left, fr), self.eval(node.right, fr)
        return self.binop(type(node.op).__name__, a, b)

    def binop(self, opn, a, b):
        if isinstance(a, C) and isinstance(b, C) and not inspect.isclass(a.v):
            import operator
            f = {"Add": operator.add, "Sub": operator.sub, "Mult": operator.mul, "Mod": operator.mod, "Div": operator.truediv,
                 "BitAnd": operator.and_, "BitOr": operator.or_, "BitXor": operator.xor, "FloorDiv": operator.floordiv}.get(opn)
            if f is None:
                raise Unsupported(opn)
            try:
                return self.wrap(f(a.v, b.v))
            except TypeError as e:
                raise PyRaise("TypeError", msg=str(e))
            except ZeroDivisionError as e:
                raise PyRaise("ZeroDivisionError", msg=str(e))
            except ValueError as e:
                raise PyRaise("ValueError", msg=str(e))
        # operator overloading on program objects (&, |, ^, /)
        dunder = {"BitAnd": "__and__", "BitOr": "__or__", "BitXor": "__xor__", "Div": "__truediv__", "Add": "__add__"}.get(opn)
        if dunder and isinstance(a, SObj):
            f = self.class_lookup(a.cls, dunder)
            if f is not None:
                return self.call_function(f, [a, b], {})
        if dunder and isinstance(b, SObj):
            f = self.class_lookup(b.cls, "__r" + dunder[2:])
            if f is not None:
                return self.call_function(f, [b, a], {})
        if dunder and getattr(self, "opaque_objects", False) and (isinstance(a, Z) or isinstance(b, Z)) and dunder in (
                "__and__", "__or__", "__xor__", "__truediv__"):
            methods, _ = self.program_names()
            cands = methods.get(dunder, []) + methods.get("__r" + dunder[2:], [])
            za = a if isinstance(a, Z) else b
            if cands and self.path.branch(z3.Or(V.is_obj(self.to_z(a)), V.is_obj(self.to_z(b)))):
                return self.call_unknown_method(UnknownMethod(dunder, za, cands), [b if za is a else a], {})
        if opn == "Add":
            if isinstance(a, (LList, ZSeq)) and isinstance(b, (LList, ZSeq)):
                if isinstance(a, LList) and isinstance(b, LList) and a.concrete and b.concrete:
                    return LList(a.items + b.items)
                return LList(None, z3.Concat(self.seq_of(a), self.seq_of(b)))
            if isinstance(a, LTuple) and isinstance(b, LTuple):
                return LTuple(a.items + b.items)
            if isinstance(a, LList) and isinstance(b, Z):
                # list + symbolic value: a list iff b is a list
                zb = b.t
                self.guard([("TypeError", z3.Not(V.is_list(zb)))])
                return LList(None, z3.Concat(self.seq_of(a), V.Val.litems(zb)))
            if isinstance(a, Z) and isinstance(b, LList):
                self.guard([("TypeError", z3.Not(V.is_list(a.t)))])
                return LList(None, z3.Concat(V.Val.litems(a.t), self.seq_of(b)))
            x, y = self.as_int(a), self.as_int(b)
            if x is not None and y is not None:
                return ZInt(x + y)
            if isinstance(a, (Z, C)) and isinstance(b, (Z, C)):
                za, zb = self.to_z(a), self.to_z(b)
                both_str = z3.And(V.is_str(za), V.is_str(zb))
                both_int = z3.And(V.is_integral(za), V.is_integral(zb))
                both_num = z3.And(V.is_num(za), V.is_num(zb))
                both_list = z3.And(V.is_list(za), V.is_list(zb))
                self.guard([("TypeError", z3.Not(z3.Or(both_str, both_num, both_list)))])
                return Z(z3.If(both_str, V.VStr(z3.Concat(V.Val.s(za), V.Val.s(zb))), z3.If(
                    both_int, V.VInt(V.intval(za) + V.intval(zb)), z3.If(both_num, V.VFloat(V.num(za) + V.num(zb)),
                                                                         V.VList(z3.Concat(V.Val.litems(za), V.Val.litems(zb)))))))
        if opn == "Sub":
            x, y = self.as_int(a), self.as_int(b)
            if x is not None and y is not None and (isinstance(a, ZInt) or isinstance(b, ZInt)):
                return ZInt(x - y)
            if isinstance(a, LSet) and isinstance(b, LSet):
                return LSet(self.set_filter(a.seq, b.seq, keep_in=False))
            val, errs = V.sub_parts(self.to_z(a), self.to_z(b))
            self.guard(errs)
            return Z(val)
        if opn == "BitAnd" and isinstance(a, LSet) and isinstance(b, LSet):
            return LSet(self.set_filter(a.seq, b.seq, keep_in=True))
        if opn == "Mod":
            if isinstance(a, C) and isinstance(a.v, str):
                self.assumptions_used.add("str % x formatting is under-specified (uninterpreted result / error class)")
            val, errs = V.mod_parts(self.to_z(a), self.to_z(b))
            self.guard(errs)
            return Z(val)
        if opn == "Mult":
            x, y = self.as_int(a), self.as_int(b)
            if x is not None and y is not None:
                return ZInt(x * y)
            if isinstance(a, C) and isinstance(a.v, str):
                self.assumptions_used.add("str * int is an uninterpreted total string function")
                return Z(V.VStr(V.fresh("strmul", V.S)))
        if opn in ("BitAnd", "BitOr", "BitXor"):
            ta, tb = self.z_truth(a), self.z_truth(b)
            if isinstance(a, (ZBool, C)) and isinstance(b, (ZBool, C)):
                ta = z3.BoolVal(ta) if isinstance(ta, bool) else ta
                tb = z3.BoolVal(tb) if isinstance(tb, bool) else tb
                return ZBool({"BitAnd": z3.And(ta, tb), "BitOr": z3.Or(ta, tb), "BitXor": z3.Xor(ta, tb)}[opn])
            za, zb = self.to_z(a), self.to_z(b)
            both_bool = z3.And(V.is_bool(za), V.is_bool(zb))
            self.guard([("TypeError", z3.Not(z3.And(V.is_integral(za), V.is_integral(zb))))])
            self.path.assume(both_bool)   # integers: bitwise arithmetic not modelled; restrict to bools (assumption recorded)
            self.assumptions_used.add("bitwise &,|,^ on symbolic operands modelled for bools only")
            x, y = V.Val.b(za), V.Val.b(zb)
            return ZBool({"BitAnd": z3.And(x, y), "BitOr": z3.Or(x, y), "BitXor": z3.Xor(x, y)}[opn])
        if getattr(self, "frame_only", False):
            return Z(V.fresh(f"binop_{opn}"))
        raise Unsupported(f"binop {opn} on {type(a).__name__}, {type(b).__name__}")

    SetFilter = {}

    def set_filter(self, xs, ys, keep_in):
        """Elements of xs that are (not) members of ys (Python ==), in order: a recursive function of a prefix length."""
        key = keep_in
        if key not in Interp.SetFilter:
            f = z3.RecFunction(f"SetFilter_{'in' if keep_in else 'notin'}", V.VS, V.VS, V.I, V.VS)
            a, b, k = z3.Const("sfa", V.VS), z3.Const("sfb", V.VS), z3.Int("sfk")
            member = V.seq_has(b, a[k - 1])
            cond = member if keep_in else z3.Not(member)
            z3.RecAddDefinition(f, [a, b, k], z3.If(k <= 0, z3.Empty(V.VS), z3.If(
                cond, z3.Concat(f(a, b, k - 1), z3.Unit(a[k - 1])), f(a, b, k - 1))))
            Interp.SetFilter[key] = f
        return Interp.SetFilter[key](xs, ys, z3.Length(xs))

    # ------------------------------------------------------------------------------------------- subscripts
    def e_Subscript(self, node, fr):
        obj = self.eval(node.value, fr)
        if isinstance(node.slice, ast.Slice):
            lo = self.eval(node.slice.lower, fr) if node.slice.lower else None
            hi = self.eval(node.slice.upper, fr) if node.slice.upper else None
            if node.slice.step is not None:
                raise Unsupported("slice step")
            return self.get_slice(obj, lo, hi)
        return self.get_item(obj, self.eval(node.slice, fr))

    def get_slice(self, obj, lo, hi):
        if isinstance(obj, C) and (lo is None or isinstance(lo, C)) and (hi is None or isinstance(hi, C)):
            return self.wrap(obj.v[(lo.v if lo else None):(hi.v if hi else None)])
        if isinstance(obj, (LTuple, LList)) and getattr(obj, "items", None) is not None and (
                lo is None or isinstance(lo, C)) and (hi is None or isinstance(hi, C)):
            s = obj.items[(lo.v if lo else None):(hi.v if hi else None)]
            return LTuple(s) if isinstance(obj, LTuple) else LList(s)
        if isinstance(obj, SObj):
            f = self.class_lookup(obj.cls, "__getitem__")
            if f is not None and (lo is None or isinstance(lo, C)) and (hi is None or isinstance(hi, C)):
                return self.call_function(f, [obj, C(slice(lo.v if lo else None, hi.v if hi else None))], {})
        seq = self.seq_of(obj) if isinstance(obj, (LList, LTuple, ZSeq)) else None
        if seq is None and isinstance(obj, Z):
            zo = obj.t
            self.guard([("TypeError", z3.Not(V.is_seq(zo)))])
            seq = V.seq_items(zo)
        n = z3.Length(seq)

        def norm(b, default):
            if b is None:
                return default
            i = self.as_int(b)
            if i is None:
                i = V.intval(self.to_z(b))
            i = z3.If(i < 0, i + n, i)
            return z3.If(i < 0, z3.IntVal(0), z3.If(i > n, n, i))
        a, b = norm(lo, z3.IntVal(0)), norm(hi, n)
        sub = z3.SubSeq(seq, a, z3.If(b > a, b - a, z3.IntVal(0)))
        if isinstance(obj, LTuple) or (isinstance(obj, ZSeq) and obj.kind == "tuple"):
            return ZSeq(sub, "tuple")
        return LList(None, sub)

    def norm_index(self, i, n):
        """Python's index normalisation (negative indices count from the end); the case split is dropped when the path
        condition decides the sign (keeps the terms of loop bodies and spec functions small)."""
        i = z3.simplify(i)
        if z3.is_int_value(i):
            return i if i.as_long() >= 0 else i + n
        if not getattr(self, "spec_body", False):
            return z3.If(i < 0, i + n, i)
        if not self.path.feasible(i < 0):
            return i
        if not self.path.feasible(i >= 0):
            return i + n
        return z3.If(i < 0, i + n, i)

    def get_item(self, obj, key):
        if isinstance(obj, C) and isinstance(key, LTuple) and all(isinstance(i, C) for i in key.items):
            key = C(tuple(i.v for i in key.items))          # a tuple of constants is a constant key
        if isinstance(obj, C) and isinstance(key, C):
            try:
                return self.wrap(obj.v[key.v])
            except KeyError:
                raise PyRaise("KeyError", payload=key)
            except IndexError:
                raise PyRaise("IndexError")
            except TypeError as e:
                raise PyRaise("TypeError", msg=str(e))
        if isinstance(obj, (LList, LTuple)) and getattr(obj, "items", None) is not None and isinstance(key, C) and isinstance(key.v, int):
            try:
                return obj.items[key.v]
            except IndexError:
                raise PyRaise("IndexError")
        if isinstance(obj, LDict):
            for k, v in obj.pairs:
                r = self.py_eq(k, key)
                if r is True or (r is not False and self.path.branch(r)):
                    return v
            raise PyRaise("KeyError", payload=key)
        if isinstance(obj, C) and isinstance(obj.v, dict):
            # concrete lookup table indexed by a symbolic key (e.g. DTYPE_LOOKUP[spec_val])
            for k, v in obj.v.items():
                r = self.py_eq(C(k), key)
                if r is True or (r is not False and self.path.branch(r)):
                    return self.wrap(v)
            self.guard([("TypeError", z3.Not(V.hashable(self.to_z(key))))])
            raise PyRaise("KeyError", payload=key)
        if isinstance(obj, SObj):
            f = self.class_lookup(obj.cls, "__getitem__")
            if f is None:
                raise PyRaise("TypeError", msg="not subscriptable")
            return self.call_function(f, [obj, key], {})
        if isinstance(obj, (LList, LTuple)) and getattr(obj, "items", None) is not None \
                and any(isinstance(x, (LList, LDict, SObj)) for x in obj.items):
            # an in-place container among the items: which item a symbolic index addresses is decided by cases, so that
            # the item keeps its identity (a store into it is a store into this list's item)
            i = self.as_int(key)
            if i is None:
                zk = self.to_z(key)
                self.guard([("TypeError", z3.Not(V.is_integral(zk)))])
                i = V.intval(zk)
            n = len(obj.items)
            j = z3.If(i < 0, i + n, i)
            self.guard([("IndexError", z3.Or(j < 0, j >= n))])
            for p in range(n - 1):
                if self.path.branch(j == p):
                    return obj.items[p]
            return obj.items[n - 1]
        if isinstance(obj, (LList, LTuple, ZSeq)):
            seq = self.seq_of(obj)
            i = self.as_int(key)
            if i is None:
                zk = self.to_z(key)
                self.guard([("TypeError", z3.Not(V.is_integral(zk)))])
                i = V.intval(zk)
            n = z3.Length(seq)
            j = self.norm_index(i, n)
            self.guard([("IndexError", z3.Or(j < 0, j >= n))])
            return Z(seq[j])
        zo, zk = self.to_z(obj), self.to_z(key)
        from .builtins_model import FreshZ
        if isinstance(obj, FreshZ) and obj.deep:
            r = self._get_item_sym(zo, zk)
            return FreshZ(r.t, None, True)
        return self._get_item_sym(zo, zk)

    def _get_item_sym(self, zo, zk):
        if getattr(self, "frame_only", False):
            # frame-only: an unknown element of an unknown container
            E = z3.Function("U_getitem_err", V.Val, V.Val, V.I)
            from .comp import KIND_CODE
            self.guard([(k, E(zo, zk) == KIND_CODE[k]) for k in ("KeyError", "IndexError", "TypeError")])
            return Z(z3.Function("U_getitem", V.Val, V.Val, V.Val)(zo, zk))
        # symbolic container: fork on kind
        kind = self.path.choose([V.is_dict(zo), V.is_seq(zo), V.is_str(zo),
                                 z3.Not(z3.Or(V.is_dict(zo), V.is_seq(zo), V.is_str(zo), V.is_range(zo))), V.is_range(zo)])
        if kind == 4:
            # range(lo, hi)[i] (step 1)
            self.guard([("TypeError", z3.Not(V.is_integral(zk)))])
            lo, hi = V.Val.lo(zo), V.Val.hi(zo)
            n = z3.If(hi > lo, hi - lo, z3.IntVal(0))
            i = V.intval(zk)
            j = z3.If(i < 0, i + n, i)
            self.guard([("IndexError", z3.Or(j < 0, j >= n))])
            return Z(V.VInt(lo + j))
        if kind == 0:
            self.guard([("TypeError", z3.Not(V.hashable(zk)))])
            idx = V.dict_index(zo, zk)
            self.guard([("KeyError", idx < 0)])
            return Z(V.Val.dvals(zo)[idx])
        if kind == 1:
            self.guard([("TypeError", z3.Not(V.is_integral(zk)))])
            seq = V.seq_items(zo)
            n = z3.Length(seq)
            i = V.intval(zk)
            j = z3.If(i < 0, i + n, i)
            self.guard([("IndexError", z3.Or(j < 0, j >= n))])
            return Z(seq[j])
        if kind == 2:
            self.guard([("TypeError", z3.Not(V.is_integral(zk)))])
            s = V.Val.s(zo)
            i = V.intval(zk)
            j = z3.If(i < 0, i + z3.Length(s), i)
            self.guard([("IndexError", z3.Or(j < 0, j >= z3.Length(s)))])
            return Z(V.VStr(z3.SubString(s, j, 1)))
        raise PyRaise("TypeError", msg="not subscriptable")

    # ------------------------------------------------------------------------------------------- comprehensions
    def e_ListComp(self, node, fr):
        return self.comprehension(node, fr, "list")

    def e_GeneratorExp(self, node, fr):
        return self.comprehension(node, fr, "list")      # consumed eagerly by the caller (any/all/sum/tuple/...)

    def e_DictComp(self, node, fr):
        return self.comprehension(node, fr, "dict")

    def comprehension(self, node, fr, kind):
        env = dict(fr.env)
        sub = Frame(fr.func, env, fr.fn_globals, fr.cls_ctx, fr.name)
        results = []
        sym = self._comp_rec(node, 0, sub, kind, results)
        if sym is not None:
            return sym
        if kind == "dict":
            return LDict(self.merge_pairs(results))
        return LList(results)

    def _comp_rec(self, node, gi, fr, kind, results):
        gens = node.generators
        if gi == len(gens):
            if kind == "dict":
                results.append((self.eval(node.key, fr), self.eval(node.value, fr)))
            else:
                results.append(self.eval(node.elt, fr))
            return None
        g = gens[gi]
        it = self.eval(g.iter, fr)
        from .builtins_model import SymZip, SymEnumerate
        items = self.try_iter_concrete(it) if not isinstance(it, (Z, SymZip, SymEnumerate)) else None
        if items is None:
            if getattr(self, "frame_only", False):
                return self.frame_comprehension(node, gi, it, fr, kind)
            if gi == 0 and len(gens) == 1 and kind == "list":
                from .comp import build_comprehension
                return build_comprehension(self, node, g, it, fr)
            if (gi == 0 and len(gens) == 1 and kind == "dict" and isinstance(it, SymZip) and len(it.seqs) == 2 and not g.ifs
                    and isinstance(g.target, ast.Tuple) and len(g.target.elts) == 2
                    and all(isinstance(e, ast.Name) for e in g.target.elts) and isinstance(node.key, ast.Name)
                    and isinstance(node.value, ast.Name) and node.key.id == g.target.elts[0].id and node.value.id == g.target.elts[1].id):
                # {k: v for k, v in zip(ks, vs)}: the mapping with those keys and values (keys of a mapping are distinct;
                # for sequences of different lengths zip stops at the shorter one)
                ks, vs = it.seqs
                n = z3.If(z3.Length(ks) < z3.Length(vs), z3.Length(ks), z3.Length(vs))
                self.guard([("TypeError", z3.Not(V.AllHashableSeq(ks)) if hasattr(V, "AllHashableSeq") else z3.BoolVal(False))])
                return Z(V.VDict(z3.SubSeq(ks, 0, n), z3.SubSeq(vs, 0, n)))
            raise Unsupported(f"comprehension over a symbolic sequence (nested / dict) at line {node.lineno}")
        for x in items:
            self.assign_target(g.target, x, fr)
            if all(self.truth(self.eval(c, fr)) for c in g.ifs):
                r = self._comp_rec(node, gi + 1, fr, kind, results)
                if r is not None:
                    return r
        return None

    def frame_comprehension(self, node, gi, it, fr, kind):
        """Frame-only verification of a comprehension over a symbolic iterable: the element expression is executed for
        one arbitrary element (its stores are frame obligations like any other); the result is a fresh container of
        unknown contents."""
        from .comp import explore_body
        from .loops import iter_elements
        from .builtins_model import FreshZ
        g = node.generators[gi]
        r = iter_elements(self, it)
        seq, elem = r[0], r[1]
        k = V.fresh("ck", V.I)

        def body(sub):
            f2 = Frame(fr.func, dict(fr.env), fr.fn_globals, fr.cls_ctx, fr.name)
            sub.assign_target(g.target, elem(k), f2)
            for c in g.ifs:
                if not sub.truth(sub.eval(c, f2)):
                    return C(None)
            res = []
            sub._comp_rec(node, gi + 1, f2, kind, res)
            return C(None)
        outcomes = explore_body(self, body)
        kinds = sorted({k2 for _, (tag, k2) in outcomes if tag == "raise"})
        if kinds and self.try_depth():
            i = self.path.choose([True] * (len(kinds) + 1), structural=True)
            if i > 0:
                raise PyRaise(kinds[i - 1], msg="(element of a comprehension)")
        if kind == "dict":
            return FreshZ(V.VDict(V.fresh("dc_k", V.VS), V.fresh("dc_v", V.VS)), None, False)
        return LList(None, V.fresh("lc", V.VS), fresh=True)

    def symbolic_comprehension(self, node, g, it, fr):
        """[elt for target in xs if conds] over a symbolic sequence xs: a fresh result sequence defined
        through a recursive function of the prefix length, built from the symbolic body (lambda lifting)."""
        xs = self.iter_seq(it)
        return self.engine_comp(node, g, xs, fr)

    def engine_comp(self, node, g, xs, fr):
        from .comp import build_comprehension
        return build_comprehension(self, node, g, xs, fr)

    # =========================================================================================== iteration
    def try_iter_concrete(self, v):
        """Python list of executor values if the iteration spine is concrete, else None."""
        if isinstance(v, UnknownMethod):
            return None
        if isinstance(v, LList):
            return list(v.items) if v.concrete else None
        if isinstance(v, LTuple):
            return list(v.items)
        if isinstance(v, LDict):
            return [k for k, _ in v.pairs]
        if isinstance(v, C):
            x = v.v
            if isinstance(x, (list, tuple, range, dict, set, frozenset, str)) or hasattr(x, "__iter__") and not isinstance(x, type):
                try:
                    return [self.wrap(i) for i in x]
                except TypeError:
                    pass
            raise PyRaise("TypeError", msg=f"{type(x).__name__} object is not iterable")
        if isinstance(v, ConcreteIter):
            return list(v.items)
        if isinstance(v, SObj):
            f = self.class_lookup(v.cls, "__iter__")
            if f is None:
                raise PyRaise("TypeError", msg="object is not iterable")
            if "FilteredDataLike" in [c.__name__ for c in v.cls.__mro__] and "result" in v.attrs:
                self.check_generator(v.cls)
                items = self.try_iter_concrete(v.attrs["result"])
                if items is None:
                    return None               # symbolic number of items: the loop machinery takes over (pyvc/loops.py)
                item_cls = self.program.modules["valida.data"].FilteredDataItem
                return [self.call_class(item_cls, [v, C(i)], {}) for i in range(len(items))]
            return self.try_iter_concrete(self.iter_of_sobj(v))
        return None

    def iter_of_sobj(self, v):
        # the three trivial generators of the code base (DESIGN §2.1): Data.__iter__, FilteredDataLike.__iter__, DataPath.__iter__
        n = v.cls.__name__
        mro = [c.__name__ for c in v.cls.__mro__]
        self.check_generator(v.cls)
        if "DataPath" in mro:
            return v.attrs["parts"]
        if "Data" in mro:
            return self.call_function(self.class_lookup(v.cls, "keys"), [v], {})
        raise Unsupported(f"iteration over {n}")

    GENERATORS = {
        "DataPath": "for i in self.parts:\n    yield i",
        "Data": "for idx in range(len(self)):\n    yield self.keys()[idx]",
        "FilteredDataLike": "for idx, _ in enumerate(self.result):\n    yield FilteredDataItem(self, idx)",
    }

    def check_generator(self, cls):
        """The three generators are not executed but replaced by the sequences they yield; that replacement is only valid
        for the text it was written for, so the text is compared on every use."""
        f = self.class_lookup(cls, "__iter__")
        node = self.program.node_of(f)
        owner = f.__qualname__.split(".")[0]
        body = "\n".join(ast.unparse(st) for st in node.body if not (isinstance(st, ast.Expr) and isinstance(st.value, ast.Constant)))
        if self.GENERATORS.get(owner) != body:
            raise Unsupported(f"{owner}.__iter__ is not the generator the executor knows ({body!r})")

    def iter_concrete(self, v):
        items = self.try_iter_concrete(v)
        if items is None:
            raise Unsupported("iteration over a symbolic sequence where a concrete spine is required")
        return items

    def iter_seq(self, v):
        """z3 Seq(Val) of the items produced by iterating v (symbolic iteration)."""
        if isinstance(v, UnknownMethod):
            v = Z(self.to_z(v))
        if isinstance(v, (BuiltinMethod, BoundMethod, Closure)):
            raise PyRaise("TypeError", msg="method object is not iterable")
        if isinstance(v, (LList, LTuple, ZSeq)):
            return self.seq_of(v)
        if isinstance(v, Z) and getattr(self, "frame_only", False):
            # frame-only: the items of an unknown iterable are an unknown sequence (no case split on its kind)
            self.guard([("TypeError", z3.Function("U_iter_err", V.Val, V.B)(v.t))])
            return z3.Function("U_iter", V.Val, V.VS)(v.t)
        if isinstance(v, Z):
            zo = v.t
            k = self.path.choose([V.is_list(zo), V.is_tuple(zo), V.is_dict(zo), V.is_range(zo),
                                  z3.Not(z3.Or(V.is_list(zo), V.is_tuple(zo), V.is_dict(zo), V.is_range(zo), V.is_str(zo), V.is_set(zo))),
                                  V.is_str(zo), V.is_set(zo)])
            if k == 0:
                return V.Val.litems(zo)
            if k == 1:
                return V.Val.titems(zo)
            if k == 2:
                return V.Val.dkeys(zo)
            if k == 3:
                return V.RangeSeq(V.Val.lo(zo), V.Val.hi(zo))
            if k == 5:
                # a string iterates over its characters (found missing by the CPython cross-check: such inputs were
                # silently left out of every path)
                st = V.Val.s(zo)
                chars = z3.Function("StrChars", V.S, V.VS)(st)
                self.path.assume(z3.Length(chars) == z3.Length(st))
                self.path.add_qfact(lambda j, chars=chars, st=st: z3.Implies(
                    z3.And(j >= 0, j < z3.Length(st)), chars[j] == V.VStr(z3.SubString(st, j, 1))))
                return chars
            if k == 6:
                return V.Val.selems(zo)          # in the set's (unspecified but fixed) iteration order
            raise PyRaise("TypeError", msg="object is not iterable")
        raise Unsupported(f"iter_seq {v!r}")

    def dict_pairs(self, d):
        if isinstance(d, LDict):
            return list(d.pairs)
        if isinstance(d, C) and isinstance(d.v, dict):
            return [(self.wrap(k), self.wrap(v)) for k, v in d.v.items()]
        raise Unsupported(f"dict_pairs of {d!r}")

    # =========================================================================================== attributes
    def e_Attribute(self, node, fr):
        obj = self.eval(node.value, fr)
        return self.get_attr(obj, node.attr)

    def class_lookup(self, cls, name):
        """Raw class attribute through the MRO (no descriptor binding); None when absent (object's own ignored)."""
        for k in cls.__mro__:
            if k is object:
                break
            if name in k.__dict__:
                v = k.__dict__[name]
                return _NONE_ATTR if v is None else v
        return None

    def get_attr(self, obj, name):
        if isinstance(obj, SObj):
            if name in obj.attrs:
                return obj.attrs[name]
            if self.verifying:
                # the contract under proof may route a method of a class through an interface contract
                from .contracts import INTERFACES
                vc = self.contracts.get(self.verifying)
                ui = getattr(vc, "uses_interfaces", None) or {}
                for c in obj.cls.__mro__:
                    iname = ui.get(f"{c.__name__}.{name}")
                    if iname in INTERFACES:
                        return InterfaceMethod(iname, obj)
            raw = self.class_lookup(obj.cls, name)
            if raw is None:
                if name == "__class__":
                    return C(obj.cls)
                if name == "__dict__":
                    return LDict([(C(k), v) for k, v in obj.attrs.items()])
                if getattr(self, "frame_only", False):
                    # frame-only: an object built through its constructor's frame contract has no modelled fields; reading one
                    # gives an unknown value (raising here would end the path and leave the stores after it unchecked)
                    return Z(V.fresh(f"{obj.cls.__name__}.{name}"))
                if name in self.program.fields_assigned(obj.cls):
                    # the real class stores this field but the shape the object was built from does not describe it: the
                    # object is outside the model (not an AttributeError of the code)
                    raise Unsupported(f"field {obj.cls.__name__}.{name} is assigned by the class but is not part of the shape")
                raise PyRaise("AttributeError", msg=f"{obj.cls.__name__}.{name}")
            return self.bind_class_attr(raw, obj, obj.cls)
        if isinstance(obj, SuperProxy):
            if isinstance(obj.obj, Z):
                # receiver of unknown (sub)class: resolve through the MRO of the class that defines the calling method
                for k in obj.cls.__mro__[1:]:
                    if name in k.__dict__ and k is not object:
                        return self.bind_class_attr(k.__dict__[name], obj.obj, obj.cls, via=k)
                return C(("object", name))
            mro = obj.obj.cls.__mro__ if isinstance(obj.obj, SObj) else obj.obj.v.__mro__
            start = list(mro).index(obj.cls) + 1
            for k in mro[start:]:
                if name in k.__dict__:
                    if k is object:
                        return C(("object", name))
                    raw = k.__dict__[name]
                    if isinstance(obj.obj, SObj):
                        return self.bind_class_attr(raw, obj.obj, obj.obj.cls, via=k)
                    return self.bind_class_attr(raw, None, obj.obj.v, via=k)
            raise PyRaise("AttributeError", msg=name)
        if isinstance(obj, C):
            x = obj.v
            if inspect.isclass(x) and self.program.is_ours(x):
                raw = self.class_lookup(x, name)
                if raw is None:
                    if hasattr(x, name):
                        return self.wrap(getattr(x, name))
                    raise PyRaise("AttributeError", msg=f"type object {x.__name__!r} has no attribute {name!r}")
                return self.bind_class_attr(raw, None, x)
            try:
                return self.wrap(getattr(x, name))
            except AttributeError as e:
                raise PyRaise("AttributeError", msg=str(e))
        if isinstance(obj, (Z, LList, LDict, LTuple, LSet, ZSeq, ZBool, ZInt)):
            if isinstance(obj, Z) and name == "__name__":
                # name of a function value: an injective function of its identity (distinct functions, distinct names)
                self.guard([("AttributeError", z3.Not(z3.Or(V.is_func(obj.t), V.is_type(obj.t))))])
                return Z(V.VStr(z3.Function("NameOf", V.Val, V.S)(obj.t)))
            if isinstance(obj, Z) and obj.cls is not None:
                return self.zobj_attr(obj, name)
            if isinstance(obj, Z) and getattr(self, "opaque_objects", False):
                return self.opaque_attr(obj, name)
            if isinstance(obj, Z) and obj.cls is None:
                from .contracts import INTERFACES
                vc = self.contracts.get(self.verifying) if self.verifying else None
                iname = (getattr(vc, "uses_interfaces", None) or {}).get(name, name)
                if callable(iname) or iname in INTERFACES:
                    return InterfaceMethod(iname, obj)
            return BuiltinMethod(name, obj)
        if isinstance(obj, BoundMethod):
            if name == "__name__":
                return C(obj.func.__name__)
            if name == "__func__":
                return C(obj.func)
            if name == "__self__":
                return obj.self_val
        if isinstance(obj, ExcVal) and name == "args":
            return LTuple(list(obj.args))
        if getattr(self, "frame_only", False):
            return Z(V.fresh(f"attr_{name}"))
        raise Unsupported(f"attribute {name} of {type(obj).__name__}")

    # ---- opaque objects (frame-only verification): receivers of unknown class
    def program_names(self):
        """(method names, data attribute / property names) over all classes of the program."""
        cache = self.program.__dict__.setdefault("_names", None)
        if cache is None:
            methods, attrs = {}, set()
            for cls in self.program.class_ids:
                for n, v in cls.__dict__.items():
                    f = v.__func__ if isinstance(v, (classmethod, staticmethod)) else v
                    if inspect.isfunction(f) and f.__code__.co_filename not in self.program.sources:
                        continue
                    if inspect.isfunction(f) and not (n.startswith("__") and n not in ("__len__", "__getitem__", "__iter__", "__call__", "__eq__")):
                        methods.setdefault(n, []).append((cls, f))
                    elif isinstance(v, property) or type(v).__name__ == "classproperty":
                        attrs.add(n)
                    elif not n.startswith("__") and not inspect.isfunction(f):
                        attrs.add(n)
                attrs |= set(self.instance_attrs(cls))
            cache = self.program.__dict__["_names"] = (methods, attrs)
        return cache

    def class_constants(self, name):
        """Distinct values of a class-level constant attribute over the program's classes (None if `name` is ever an
        instance attribute, property or method)."""
        cache = self.program.__dict__.setdefault("_class_consts", {})
        if name not in cache:
            vals, ok = [], True
            for cls in self.program.class_ids:
                if name in self.instance_attrs(cls):
                    ok = False
                if name in cls.__dict__:
                    v = cls.__dict__[name]
                    if isinstance(v, (property, classmethod, staticmethod)) or inspect.isfunction(v) or type(v).__name__ == "classproperty":
                        ok = False
                    elif not any(v is w for w in vals):
                        vals.append(v)
            cache[name] = vals if ok and vals and len(vals) <= 8 else None
        return cache[name]

    def opaque_attr(self, obj, name):
        """Attribute of a value that may be an object of any program class or a JSON-like value."""
        methods, attrs = self.program_names()
        DICT_LIKE = ("keys", "values", "items", "get", "pop", "copy", "update", "setdefault", "lower", "upper", "strip",
                     "split", "startswith", "endswith", "replace", "format", "join", "append", "extend", "insert", "remove",
                     "clear", "sort", "reverse", "index", "count", "title")
        is_o = V.is_obj(obj.t)
        if name == "__class__":
            return Z(z3.Function("Field___class__", V.Val, V.Val)(obj.t))
        if name in methods or name in attrs:
            if name in DICT_LIKE:
                if not self.path.branch(is_o):
                    return BuiltinMethod(name, obj)
            else:
                self.guard([("AttributeError", z3.Not(is_o))])
            if name in methods:
                return UnknownMethod(name, obj, methods[name])
            consts = self.class_constants(name)
            if consts is not None:
                memo = self.path.__dict__.setdefault("_const_choice", {})
                from .comp import tid
                key = (tid(obj.t), name)
                if key not in memo:
                    memo[key] = self.path.choose([True] * len(consts), structural=True)
                return self.wrap(consts[memo[key]])
            f = z3.Function(f"Field_{name}", V.Val, V.Val)
            if ("zattr", obj.t.get_id(), name) in self.modifies_ok:     # (the parameter terms are alive for the whole run)
                from .builtins_model import FreshZ
                return FreshZ(f(obj.t), None, False)
            return Z(f(obj.t))
        return BuiltinMethod(name, obj)

    def call_unknown_method(self, um, args, kwargs):
        """obj.m(...) on a receiver of unknown class: sound only w.r.t. the *union* of the contracts of every program
        method named m, each of which must exist (and is proved separately).  Effects = union of their `modifies`."""
        from .contract_apply import check_modifies_args
        from .builtins_model import FreshZ
        result_fresh = True
        for cls, f in um.candidates:
            qn = f"{f.__module__}:{f.__qualname__}"
            con = self.contracts.get(qn + "#frame") or self.contracts.get(qn)
            if con is None and (f.__code__.co_flags & 0x20 or f.__name__ == "__repr__"):
                continue            # the trivial generators (__iter__) and __repr__ store nothing
            if con is None:
                raise Unsupported(f"call of .{um.name}() on an object of unknown class: {qn} has no contract")
            result_fresh = result_fresh and bool(con.fresh_result)
            node = self.program.node_of(f)
            check_modifies_args(self, con, node, [um.recv] + list(args), kwargs, qn)
            self.contract_calls.add(con.qualname)
        self.assumptions_used.add(f"call of .{um.name}() on an object of unknown class: effects bounded by the contracts of all "
                                  f"{len(um.candidates)} program methods of that name")
        from .builtins_model import FreshZ
        # a new container built from a receiver that the caller may modify deeply holds only writable things
        recv_deep = isinstance(um.recv, FreshZ) and bool(um.recv.deep)
        facts = [self.contracts.get(f"{f.__module__}:{f.__qualname__}#frame") for _, f in um.candidates]
        if len(facts) == 1 and facts[0] is not None and facts[0].ensures is not None:
            from .contract_apply import clause_bool
            res = FreshZ(V.fresh(f"res_{um.name}"), None, recv_deep) if result_fresh else Z(V.fresh(f"res_{um.name}"))
            self.path.assume(clause_bool(self, facts[0].ensures, {"result": res}, "result fact", mode="assume"))
            self.assumptions_used.add(f"assumed fact about the result of .{um.name}(): {facts[0].note or 'see contracts/frames.py RESULT_FACTS'}")
            return res
        if result_fresh:
            return FreshZ(V.fresh(f"res_{um.name}"), None, recv_deep)
        return Z(V.fresh(f"res_{um.name}"))

    def bind_class_attr(self, raw, inst, cls, via=None):
        if raw is _NONE_ATTR:
            return C(None)
        if isinstance(raw, property):
            if inst is None:
                return C(raw)
            return self.call_function(raw.fget, [inst], {})
        if isinstance(raw, classmethod):
            return BoundMethod(raw.__func__, C(cls), via)
        if isinstance(raw, staticmethod):
            return C(raw.__func__)
        if inspect.isfunction(raw):
            if inst is None:
                return C(raw)
            return BoundMethod(raw, inst, via)
        if type(raw).__name__ == "classproperty" and self.program.is_ours(type(raw)):
            return self.call_function(raw.f, [C(cls)], {})
        return self.wrap(raw)

    def instance_attrs(self, cls):
        """Sorted instance attribute names of a program class: every `self.<name> = ...` store in its methods."""
        cache = self.program.__dict__.setdefault("_inst_attrs", {})
        if cls not in cache:
            names = set()
            for k in cls.__mro__:
                if k is object or not self.program.is_ours(k):
                    continue
                for v in k.__dict__.values():
                    f = v.fset if isinstance(v, property) and v.fset else (v.__func__ if isinstance(v, (classmethod, staticmethod)) else v)
                    node = self.program.node_of(f) if inspect.isfunction(f) else None
                    if node is None or not node.args.args:
                        continue
                    selfname = node.args.args[0].arg
                    for sub in ast.walk(node):
                        if isinstance(sub, ast.Attribute) and isinstance(sub.ctx, ast.Store) and isinstance(sub.value, ast.Name) \
                                and sub.value.id == selfname:
                            names.add(sub.attr)
            # attributes assigned through a property setter are stored under the setter's own target
            props = {n for k in cls.__mro__ for n, v in k.__dict__.items() if isinstance(v, property)}
            cache[cls] = sorted(names - props)
        return cache[cls]

    def zobj_attr(self, obj, name):
        cls = obj.cls
        names = self.instance_attrs(cls)
        if name in names:
            return Z(V.Val.fields(obj.t)[names.index(name)])
        raw = self.class_lookup(cls, name)
        if raw is None:
            raise PyRaise("AttributeError", msg=f"{cls.__name__}.{name}")
        return self.bind_class_attr(raw, obj, cls)

    # =========================================================================================== calls
    def e_Call(self, node, fr):
        fn = node.func
        # super() needs the defining class of the current function
        if isinstance(fn, ast.Name) and fn.id == "super" and not node.args:
            first = fr.env.get(next(iter(fr.env))) if fr.env else None
            selfv = fr.env.get(fr.func_first_arg) if hasattr(fr, "func_first_arg") else first
            return SuperProxy(fr.cls_ctx, selfv)
        f = self.eval(fn, fr)
        if isinstance(f, C) and f.v in (_builtins.any, _builtins.all, _builtins.sum) and len(node.args) == 1 and isinstance(
                node.args[0], ast.GeneratorExp) and not node.keywords:
            from .comp import fold_genexp
            return fold_genexp(self, f.v.__name__, node.args[0], fr)
        args = []
        for a in node.args:
            if isinstance(a, ast.Starred):
                sv = self.eval(a.value, fr)
                items = self.try_iter_concrete(sv)
                if items is None:
                    args.append(StarArgs(sv))
                else:
                    args += items
            else:
                args.append(self.eval(a, fr))
        kwargs = {}
        for k in node.keywords:
            if k.arg is None:
                d = self.eval(k.value, fr)
                if isinstance(d, (LDict,)) or (isinstance(d, C) and isinstance(d.v, dict)):
                    for kk, vv in self.dict_pairs(d):
                        if not (isinstance(kk, C) and isinstance(kk.v, str)):
                            raise PyRaise("TypeError", msg="keywords must be strings")
                        kwargs[kk.v] = vv
                else:
                    kwargs["**"] = d
            else:
                kwargs[k.arg] = self.eval(k.value, fr)
        return self.call(f, args, kwargs, node)

    def call(self, f, args, kwargs, node=None):
        from .builtins_model import call_builtin, call_builtin_method
        if isinstance(f, BoundMethod):
            if isinstance(f.self_val, C) and f.self_val.v == ("object",):
                return C(None)
            return self.call_function(f.func, [f.self_val] + args, kwargs, via_cls=f.via_cls)
        if isinstance(f, Closure):
            return self.call_closure(f, args, kwargs)
        if isinstance(f, InterfaceMethod):
            from .contracts import INTERFACES
            from .contract_apply import apply_interface
            name = f.name(args, kwargs) if callable(f.name) else f.name      # the interface may depend on the arguments
            self.contract_calls.add(f"interface:{name}")
            return apply_interface(self, INTERFACES[name], f.recv, args, kwargs)
        if isinstance(f, UnknownMethod):
            return self.call_unknown_method(f, args, kwargs)
        if isinstance(f, BuiltinMethod):
            return call_builtin_method(self, f, args, kwargs)
        if isinstance(f, C):
            x = f.v
            if hasattr(x, "_spec_kinds"):
                from . import specfun
                return specfun.apply(self, x, args, kwargs)
            if getattr(x, "__module__", None) == "spec.prims":
                from .prims_model import call_prim
                return call_prim(self, x.__name__, args, kwargs)
            if isinstance(x, tuple) and len(x) == 2 and x[0] == "object":
                # object.__init__ / object.__new__ reached through super()
                if x[1] == "__new__":
                    if not isinstance(args[0], C):
                        from .builtins_model import FreshZ
                        return FreshZ(V.fresh("newobj"), None, True)
                    cls = args[0].v
                    return SObj(cls)
                return C(None)
            if inspect.isclass(x):
                return self.call_class(x, args, kwargs)
            if inspect.isfunction(x) and (self.program.node_of(x) is not None):
                return self.call_function(x, args, kwargs)
            if isinstance(x, types.MethodType) and self.program.node_of(x.__func__) is not None:
                return self.call_function(x.__func__, [self.wrap(x.__self__)] + args, kwargs)
            return call_builtin(self, x, args, kwargs)
        if isinstance(f, SObj):
            cf = self.class_lookup(f.cls, "__call__")
            if cf is None:
                raise PyRaise("TypeError", msg="object is not callable")
            return self.call_function(cf, [f] + args, kwargs)
        if isinstance(f, Z) and z3.is_app(f.t) and f.t.decl().name() == "VType" and len(args) == 1 and not kwargs:
            # type(x)(items) with x a list or a tuple (the only symbolic type objects valida calls)
            tid = f.t.arg(0)
            k = self.path.choose([tid == V.T_LIST, tid == V.T_TUPLE, z3.Not(z3.Or(tid == V.T_LIST, tid == V.T_TUPLE))])
            if k == 2:
                raise Unsupported("call of a symbolic type object other than list / tuple")
            from .builtins_model import call_builtin
            return call_builtin(self, list if k == 0 else tuple, args, kwargs)
        if isinstance(f, Z) and getattr(self, "frame_only", False) and not z3.is_app_of(f.t, z3.Z3_OP_DT_CONSTRUCTOR):
            self.assumptions_used.add("call of a value of unknown kind (class object / callable): result unknown, no effect on "
                                      "pre-existing program objects")
            return Z(V.fresh("callres"))
        if isinstance(f, Z):
            from .builtins_model import call_symbolic_function
            return call_symbolic_function(self, f, args, kwargs)
        raise Unsupported(f"call of {f!r}")

    def call_closure(self, f, args, kwargs):
        node = f.node
        active = self.__dict__.setdefault("_active_closures", [])
        if active.count(id(node)) >= (2 if getattr(self, "frame_only", False) else 12):
            # (outside frame-only mode the recursion runs over concrete spines - nested argument containers - and ends)
            if getattr(self, "frame_only", False):
                self.assumptions_used.add(f"recursive local function {f.name}: recursion cut after two levels (frame-only: the "
                                          "deeper calls perform the same stores)")
                return Z(V.fresh(f"rec_{f.name}"))
            raise Unsupported(f"recursive local function {f.name} without a contract")
        active.append(id(node))
        try:
            return self._call_closure(f, args, kwargs)
        finally:
            active.pop()

    def _call_closure(self, f, args, kwargs):
        node = f.node
        env = dict(f.env)
        self.bind_params(node.args, args, kwargs, env, f.name)
        fr = Frame(None, env, f.fn_globals, None, f.name)
        if isinstance(node, ast.Lambda):
            return self.eval(node.body, fr)
        try:
            self.exec_block(node.body, fr)
        except ReturnSig as r:
            return r.value
        return C(None)

    def bind_params(self, a, args, kwargs, env, fname):
        """CPython's argument binding (positional, keyword, defaults, *args, **kwargs); mismatches raise TypeError."""
        pos = [p.arg for p in a.posonlyargs + a.args]
        defaults = a.defaults
        kwargs = dict(kwargs)
        n = len(pos)
        sym_star = None
        if any(isinstance(x, StarArgs) for x in args):
            # a symbolic *tuple is accepted only as the tail that lands entirely in the callee's own *args
            i = next(i for i, x in enumerate(args) if isinstance(x, StarArgs))
            if (i < n or a.vararg is None) and len(args) == i + 1 and not kwargs:
                # the symbolic tuple supplies the remaining named parameters: its length must match exactly
                star = args[i].v
                sseq = self.seq_of(star) if not isinstance(star, Z) else V.seq_items(star.t)
                need = n - i
                lo = need - len(defaults) if a.vararg is None else need
                if a.vararg is None and not defaults:
                    self.guard([("TypeError", z3.Length(sseq) != need)])
                    args = args[:i] + [Z(sseq[j]) for j in range(need)]
                else:
                    raise Unsupported(f"call of {fname} with a symbolic * argument feeding named parameters")
            elif i < n or a.vararg is None:
                raise Unsupported(f"call of {fname} with a symbolic * argument feeding named parameters")
            if any(isinstance(x, StarArgs) for x in args):
                sym_star = args[n:]
                args = args[:n]
        sym_kw = kwargs.pop("**", None)
        if sym_kw is not None and (a.kwarg is None or any(k not in pos for k in kwargs)):
            raise Unsupported(f"call of {fname} with a symbolic ** argument feeding named parameters")
        if len(args) > n and a.vararg is None:
            raise PyRaise("TypeError", msg=f"{fname}() takes {n} positional arguments but {len(args)} were given")
        for i, p in enumerate(pos):
            if i < len(args):
                if p in kwargs:
                    raise PyRaise("TypeError", msg=f"{fname}() got multiple values for argument {p!r}")
                env[p] = args[i]
            elif p in kwargs:
                env[p] = kwargs.pop(p)
            else:
                di = i - (n - len(defaults))
                if di >= 0:
                    env[p] = self.eval(defaults[di], Frame(None, {}, env.get("__globals__", {}) or self._cur_globals, None))
                else:
                    raise PyRaise("TypeError", msg=f"{fname}() missing required positional argument {p!r}")
        if a.vararg is not None:
            if sym_star is not None:
                parts = []
                for x in sym_star:
                    if isinstance(x, StarArgs):
                        parts.append(self.seq_of(x.v) if not isinstance(x.v, Z) else V.seq_items(x.v.t))
                    else:
                        parts.append(z3.Unit(self.to_z(x)))
                env[a.vararg.arg] = ZSeq(z3.Concat(*parts) if len(parts) > 1 else parts[0], "tuple")
            else:
                env[a.vararg.arg] = LTuple(args[n:])
        for p, d in zip(a.kwonlyargs, a.kw_defaults):
            if p.arg in kwargs:
                env[p.arg] = kwargs.pop(p.arg)
            elif d is not None:
                env[p.arg] = self.eval(d, Frame(None, {}, self._cur_globals, None))
            else:
                raise PyRaise("TypeError", msg=f"{fname}() missing keyword-only argument {p.arg!r}")
        if a.kwarg is not None and sym_kw is not None:
            if kwargs:
                raise Unsupported(f"call of {fname}: explicit keywords together with a symbolic ** mapping")
            env[a.kwarg.arg] = sym_kw
        elif a.kwarg is not None:
            env[a.kwarg.arg] = LDict([(C(k), v) for k, v in kwargs.items()])
        elif kwargs:
            raise PyRaise("TypeError", msg=f"{fname}() got an unexpected keyword argument {next(iter(kwargs))!r}")

    _cur_globals = {}

    def call_function(self, f, args, kwargs, via_cls=None, force_inline=False):
        f = getattr(f, "__func__", f)
        node = self.program.node_of(f)
        if node is None:
            from .builtins_model import call_builtin
            return call_builtin(self, f, args, kwargs)
        qn = f"{f.__module__}:{f.__qualname__}"
        con = self.contracts.get(qn)
        if getattr(self, "frame_only", False):
            con = self.contracts.get(qn + "#frame") or con
        if con is not None and qn != (self.verifying or "").split("#")[0] and not force_inline and not con.inline and not (
                con.inline_at_calls and not getattr(self, "frame_only", False)):
            from .contract_apply import apply_contract
            self.contract_calls.add(qn)
            return apply_contract(self, con, f, args, kwargs)
        active = self.__dict__.setdefault("_active_funcs", [])
        if getattr(self, "frame_only", False) and active.count(qn) >= 2:
            self.assumptions_used.add(f"recursive function {qn} without a contract: recursion cut after two levels (frame-only)")
            return Z(V.fresh("rec_call"))
        if self.depth > MAX_DEPTH:
            raise Unsupported(f"call depth exceeded at {qn} (recursion without a contract)")
        self.inlined.add(qn)
        env = {}
        old_globals = Interp._cur_globals
        Interp._cur_globals = f.__globals__
        try:
            self.bind_params(node.args, args, kwargs, env, f.__name__)
        finally:
            Interp._cur_globals = old_globals
        cls_ctx = self.defining_class(f)
        fr = Frame(f, env, f.__globals__, cls_ctx, qn)
        if node.args.args:
            fr.func_first_arg = node.args.args[0].arg
        self.depth += 1
        active.append(qn)
        try:
            if isinstance(node, ast.Lambda):
                return self.eval(node.body, fr)
            self.exec_block(node.body, fr)
        except ReturnSig as r:
            return r.value
        finally:
            self.depth -= 1
            active.pop()
        return C(None)

    def defining_class(self, f):
        qn = f.__qualname__.split(".")
        if len(qn) < 2:
            return None
        obj = inspect.getmodule(f)
        for p in qn[:-1]:
            obj = getattr(obj, p, None)
            if obj is None:
                return None
        return obj if inspect.isclass(obj) else None

    def call_class(self, cls, args, kwargs):
        from .builtins_model import call_builtin
        if is_exc_class(cls):
            return ExcVal(cls.__name__, tuple(args))
        if not self.program.is_ours(cls) or issubclass(cls, enum.Enum):
            return call_builtin(self, cls, args, kwargs)
        if type(cls.__dict__.get("__init__", None)).__name__ == "function" and cls.__name__ == "classproperty":
            pass
        # object construction protocol (DESIGN §2.9): __new__, then __init__ iff the result is an instance of cls
        new = self.class_lookup(cls, "__new__")
        if new is not None and getattr(self, "frame_only", False):
            # construction protocol of classes with their own __new__ (the binary operators) is verified functionally
            # (contracts/binops.py); frame-only verification uses its result: no pre-existing object is modified
            self.assumptions_used.add(f"construction of {cls.__name__}: modifies nothing (proved by the constructor contracts, C02)")
            for a in args:
                pass
            return Z(V.fresh(f"new_{cls.__name__}"))
        if new is not None:
            newf = new.__func__ if isinstance(new, staticmethod) else new
            obj = self.call_function(newf, [C(cls)] + args, kwargs)
        else:
            obj = SObj(cls)
        if isinstance(obj, SObj) and issubclass(obj.cls, cls):
            init = self.class_lookup(obj.cls, "__init__")
            if init is not None:
                self.call_function(init, [obj] + args, kwargs)
        elif isinstance(obj, Z) and obj.cls is not None and issubclass(obj.cls, cls):
            init = self.class_lookup(obj.cls, "__init__")
            if init is not None:
                self.call_function(init, [obj] + args, kwargs)
        return obj

    # =========================================================================================== statements
    def exec_block(self, stmts, fr):
        for s in stmts:
            self.exec(s, fr)

    def exec(self, node, fr):
        m = getattr(self, "s_" + type(node).__name__, None)
        if m is None:
            raise Unsupported(f"statement {type(node).__name__} at line {node.lineno}")
        PyRaise.LINE[0] = f"{fr.name}:{node.lineno}"
        return m(node, fr)

    def s_Expr(self, node, fr):
        if isinstance(node.value, ast.Constant):
            return
        self.eval(node.value, fr)

    def s_Pass(self, node, fr):
        pass

    def s_Import(self, node, fr):
        for a in node.names:
            import importlib
            fr.env[(a.asname or a.name).split(".")[0]] = C(importlib.import_module(a.name))

    def s_ImportFrom(self, node, fr):
        import importlib
        m = importlib.import_module(node.module)
        for a in node.names:
            fr.env[a.asname or a.name] = self.wrap(getattr(m, a.name))

    def s_Return(self, node, fr):
        raise ReturnSig(self.eval(node.value, fr) if node.value is not None else C(None))

    def s_Break(self, node, fr):
        raise BreakSig()

    def s_Continue(self, node, fr):
        raise ContinueSig()

    def s_Assign(self, node, fr):
        v = self.eval(node.value, fr)
        for t in node.targets:
            self.assign_target(t, v, fr)

    def s_AnnAssign(self, node, fr):
        if node.value is not None:
            self.assign_target(node.target, self.eval(node.value, fr), fr)

    def s_AugAssign(self, node, fr):
        load = _copy.copy(node.target)
        load.ctx = ast.Load()
        cur = self.eval(load, fr)
        rhs = self.eval(node.value, fr)
        opn = type(node.op).__name__
        if opn == "Add" and isinstance(cur, LList):
            # list += iterable mutates in place
            self.list_extend(cur, rhs)
            return
        self.assign_target(node.target, self.binop(opn, cur, rhs), fr)

    def list_extend(self, lst, other):
        self.check_mutable(lst, "extend")
        items = self.try_iter_concrete(other) if not isinstance(other, Z) else None
        if lst.concrete and items is not None:
            lst.items = lst.items + items
        else:
            lst.seq = z3.Concat(self.seq_of(lst), self.iter_seq(other) if items is None else V.mk_seq([self.to_z(i) for i in items]))
            lst.items = None

    def check_mutable(self, obj, what):
        self.stores_checked = getattr(self, "stores_checked", 0) + 1
        if getattr(obj, "fresh", True):
            return
        if id(obj) in self.modifies_ok:
            return
        self.frame_violation(f"{what} on a container that is not fresh in this activation")

    def frame_violation(self, what):
        """A store into an object that existed before this activation and is not covered by `modifies`."""
        self.path.oblige(f"frame[{what}]", z3.BoolVal(False), kind="frame", info={"what": what})
        if not getattr(self, "frame_only", False):
            # the path has its verdict; what the code does after an illegal store (e.g. recursing forever through an
            # object that has just become its own child) is of no interest
            from .engine import PathEnd
            raise PathEnd()

    def assign_target(self, t, v, fr):
        if isinstance(t, ast.Name):
            fr.env[t.id] = v
        elif isinstance(t, (ast.Tuple, ast.List)):
            items = self.try_iter_concrete(v) if not isinstance(v, Z) else None
            if items is None:
                seq = self.iter_seq(v)
                n = len(t.elts)
                self.guard([("ValueError", z3.Length(seq) != n)])
                items = [Z(seq[i]) for i in range(n)]
            stars = [i for i, e in enumerate(t.elts) if isinstance(e, ast.Starred)]
            if stars:
                # a, *rest, z = items   over a sequence of concretely known length: the starred name takes a new list
                if len(stars) > 1 or self.try_iter_concrete(v) is None or isinstance(v, Z):
                    raise Unsupported("starred assignment over a sequence of unknown length")
                k, n_after = stars[0], len(t.elts) - stars[0] - 1
                if len(items) < len(t.elts) - 1:
                    raise PyRaise("ValueError", msg="unpack")
                from .sym import LList
                mid = LList(list(items[k:len(items) - n_after]), fresh=True)
                for e, x in zip(t.elts[:k], items[:k]):
                    self.assign_target(e, x, fr)
                self.assign_target(t.elts[k].value, mid, fr)
                for e, x in zip(t.elts[k + 1:], items[len(items) - n_after:] if n_after else []):
                    self.assign_target(e, x, fr)
                return
            if len(items) != len(t.elts):
                raise PyRaise("ValueError", msg="unpack")
            for e, x in zip(t.elts, items):
                self.assign_target(e, x, fr)
        elif isinstance(t, ast.Attribute):
            obj = self.eval(t.value, fr)
            self.set_attr(obj, t.attr, v)
        elif isinstance(t, ast.Subscript):
            obj = self.eval(t.value, fr)
            key = self.eval(t.slice, fr)
            self.set_item(obj, key, v)
        else:
            raise Unsupported(f"assignment target {type(t).__name__}")

    def set_attr(self, obj, name, v):
        self.stores_checked = getattr(self, "stores_checked", 0) + 1
        if isinstance(obj, SObj):
            raw = self.class_lookup(obj.cls, name)
            if isinstance(raw, property):
                if raw.fset is None:
                    raise PyRaise("AttributeError", msg="can't set attribute")
                self.call_function(raw.fset, [obj, v], {})
                return
            if not obj.fresh and (obj.oid, name) not in self.modifies_ok and (obj.oid, "*") not in self.modifies_ok:
                self.frame_violation(f"{obj.name}.{name} = ... ({obj.cls.__name__} object not created in this activation)")
            obj.attrs[name] = v
            return
        if isinstance(obj, C):
            self.frame_violation(f"store to attribute {name!r} of module/class/global object {getattr(obj.v, '__name__', obj.v)!r}")
            return
        if isinstance(obj, Z):
            from .builtins_model import FreshZ
            if isinstance(obj, FreshZ) or id(obj) in self.modifies_ok and ("zattr", obj.t.get_id(), name) in self.modifies_ok:
                return
            self.frame_violation(f"store to attribute {name!r} of an object that existed before this call")
            return
        raise Unsupported(f"set_attr on {obj!r}")

    def set_item(self, obj, key, v):
        if isinstance(obj, LDict):
            self.check_mutable(obj, "item assignment")
            for i, (k, _) in enumerate(obj.pairs):
                r = self.py_eq(k, key)
                if r is True or (r is not False and self.path.branch(r)):
                    obj.pairs[i] = (k, v)
                    return
            obj.pairs.append((key, v))
            return
        if isinstance(obj, LList):
            self.check_mutable(obj, "item assignment")
            if obj.concrete and isinstance(key, C) and isinstance(key.v, int):
                try:
                    obj.items[key.v] = v
                except IndexError:
                    raise PyRaise("IndexError")
                return
            if obj.concrete and (any(isinstance(x, (LList, LDict, SObj)) for x in obj.items) or isinstance(v, (LList, LDict, SObj))):
                # in-place containers among the items (or stored now): keep the spine, decide the position by cases
                i = self.as_int(key)
                if i is None:
                    zk = self.to_z(key)
                    self.guard([("TypeError", z3.Not(V.is_integral(zk)))])
                    i = V.intval(zk)
                n = len(obj.items)
                j = z3.If(i < 0, i + n, i)
                self.guard([("IndexError", z3.Or(j < 0, j >= n))])
                for p in range(n - 1):
                    if self.path.branch(j == p):
                        obj.items[p] = v
                        return
                obj.items[n - 1] = v
                return
            seq = self.seq_of(obj)
            i = self.as_int(key)
            if i is None:
                zk = self.to_z(key)
                self.guard([("TypeError", z3.Not(V.is_integral(zk)))])
                i = V.intval(zk)
            n = z3.Length(seq)
            j = z3.If(i < 0, i + n, i)
            self.guard([("IndexError", z3.Or(j < 0, j >= n))])
            obj.items = None
            obj.seq = z3.Concat(z3.SubSeq(seq, 0, j), z3.Unit(self.to_z(v)), z3.SubSeq(seq, j + 1, n - j - 1))
            return
        if isinstance(obj, C):
            self.frame_violation(f"item assignment into global / constant object {type(obj.v).__name__}")
            return
        if isinstance(obj, Z):
            from .builtins_model import symbolic_setitem
            return symbolic_setitem(self, obj, key, v)
        raise Unsupported(f"set_item on {obj!r}")

    def s_Delete(self, node, fr):
        for t in node.targets:
            if isinstance(t, ast.Name):
                fr.env[t.id] = _UNBOUND
            else:
                raise Unsupported("del of non-name")

    def s_Global(self, node, fr):
        self.frame_violation(f"global statement {node.names}")

    def s_If(self, node, fr):
        if self.truth(self.eval(node.test, fr)):
            self.exec_block(node.body, fr)
        else:
            self.exec_block(node.orelse, fr)

    def s_Assert(self, node, fr):
        if not self.truth(self.eval(node.test, fr)):
            raise PyRaise("AssertionError")

    def s_Raise(self, node, fr):
        if node.exc is None:
            cur = getattr(fr, "current_exc", None)
            if cur is None:
                raise PyRaise("RuntimeError", msg="no active exception")
            raise cur
        e = self.eval(node.exc, fr)
        if isinstance(e, ExcVal):
            raise PyRaise(e.kind, payload=e)
        if isinstance(e, C) and is_exc_class(e.v):
            raise PyRaise(e.v.__name__)
        raise Unsupported(f"raise of {e!r}")

    def s_Try(self, node, fr):
        td = self.__dict__.setdefault("_try_depth", [0])
        try:
            try:
                td[0] += 1
                try:
                    self.exec_block(node.body, fr)
                finally:
                    td[0] -= 1
            except PyRaise as ex:
                for h in node.handlers:
                    if self.handler_matches(h, ex, fr):
                        if h.name:
                            fr.env[h.name] = ExcVal(ex.kind, ())
                        prev = getattr(fr, "current_exc", None)
                        fr.current_exc = ex
                        try:
                            self.exec_block(h.body, fr)
                        finally:
                            fr.current_exc = prev
                        break
                else:
                    raise
            else:
                self.exec_block(node.orelse, fr)
        finally:
            if node.finalbody:
                self.exec_block(node.finalbody, fr)

    def handler_matches(self, h, ex, fr):
        if h.type is None:
            return True
        t = self.eval(h.type, fr)
        classes = [i.v for i in t.items] if isinstance(t, LTuple) else [t.v]
        for c in classes:
            if V.exc_isinstance(ex.kind, c.__name__):
                return True
            # real class hierarchy for classes known to CPython
            real = getattr(_builtins, ex.kind, None) or self.exc_class(ex.kind)
            if real is not None and inspect.isclass(real) and issubclass(real, c):
                return True
        return False

    def exc_class(self, kind):
        m = self.program.modules.get("valida.errors")
        return getattr(m, kind, None)

    def s_FunctionDef(self, node, fr):
        fr.env[node.name] = Closure(node, fr.env, fr.fn_globals, node.name)

    def s_With(self, node, fr):
        raise Unsupported("with statement")

    # ------------------------------------------------------------------------------------------- loops
    def s_For(self, node, fr):
        it = self.eval(node.iter, fr)
        items = self.try_iter_concrete(it) if not isinstance(it, Z) else None
        if items is not None:
            broke = False
            for x in items:
                self.assign_target(node.target, x, fr)
                try:
                    self.exec_block(node.body, fr)
                except BreakSig:
                    broke = True
                    break
                except ContinueSig:
                    continue
            if not broke:
                self.exec_block(node.orelse, fr)
            return
        from .loops import symbolic_for
        symbolic_for(self, node, it, fr)

    def s_While(self, node, fr):
        # concrete-condition loops only (bounded by the interpreter's own progress); symbolic ones need an invariant
        n = 0
        while True:
            c = self.z_truth(self.eval(node.test, fr))
            if not isinstance(c, bool):
                raise Unsupported("while loop with a symbolic condition (no invariant support)")
            if not c:
                break
            n += 1
            if n > 10000:
                raise Unsupported("while loop does not terminate concretely")
            try:
                self.exec_block(node.body, fr)
            except BreakSig:
                return
            except ContinueSig:
                continue
        self.exec_block(node.orelse, fr)


class StarArgs:
    def __init__(self, v):
        self.v = v


class InterfaceMethod:
    def __init__(self, name, recv):
        self.name, self.recv = name, recv


class UnknownMethod:
    def __init__(self, name, recv, candidates):
        self.name, self.recv, self.candidates = name, recv, candidates


class ConcreteIter:
    def __init__(self, items):
        self.items = items


class _NoneAttr:
    """A class attribute whose value is None (distinguished from 'no such attribute')."""


_NONE_ATTR = _NoneAttr()


class _Unbound:
    pass


_UNBOUND = _Unbound()
SPEC_BUILTINS = {}
