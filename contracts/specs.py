"""Family contracts of the condition-spec parser (C09): for every leaf shape (class x callable) and every spelling of
its key, `ConditionLike.from_spec({key: value})` returns a condition structurally identical to what the DSL
constructor returns for the same arguments.  The key is concrete per family member, the argument value is symbolic
(every value of its shape): a loop-free body over fully symbolic inputs, plus map loops with invariants for list
arguments.  (DESIGN.md §2.10, §8 C09.)"""
import random

from pyvc.contracts import contract, AnyVal, Const, Shape, ListVal
from pyvc.sym import LDict, LList, C, Z
from spec.prims import same, forall_idx, is_prefix
import valida.conditions as cnds
import valida.datapath
from vf.oracle import CLS_CALLABLES, CLS_LABEL, SIG

CLASSES = {"Value": cnds.Value, "ValueLength": cnds.ValueLength, "ValueDataType": cnds.ValueDataType, "Key": cnds.Key,
           "KeyLength": cnds.KeyLength, "KeyDataType": cnds.KeyDataType, "Index": cnds.Index}


class SpecOf(Shape):
    """The single-item mapping {key: <value shape>} (concrete spine)."""

    def __init__(self, key, val):
        self.key, self.val = key, val

    def make(self, ip, name):
        v = self.val.make(ip, "val") if isinstance(self.val, Shape) else ip.wrap(self.val)
        if isinstance(v, C) and isinstance(v.v, list):
            # a constant list argument (type names) is a container of the caller: as an executor list its stores are frame-checked
            v = LList([C(i) for i in v.v], fresh=False)
        return LDict([(C(self.key), v)], fresh=False)


class Scalar(Shape):
    """A JSON scalar argument (None / bool / number / string): not a mapping or sequence, so never a data-path spec."""

    def make(self, ip, name):
        import z3
        from pyvc import vals as V
        t = V.fresh(name)
        ip.path.assume(z3.Or(V.is_none(t), V.is_bool(t), V.is_int(t), V.is_float(t), V.is_str(t)))
        return Z(t)


class ScalarList(Shape):
    """[s1, ..., sn] with a concrete number n of scalar arguments (positional form of several parameters)."""

    def __init__(self, n):
        self.n = n

    def make(self, ip, name):
        return LList([Scalar().make(ip, f"{name}{i}") for i in range(self.n)], fresh=False)


class ScalarMap(Shape):
    def __init__(self, names):
        self.names = names

    def make(self, ip, name):
        return LDict([(C(n), Scalar().make(ip, f"{name}_{n}")) for n in self.names], fresh=False)


class ScalarSeq(Shape):
    """A list of unknown length of scalar arguments."""

    def make(self, ip, name):
        import z3
        from pyvc import vals as V
        s = V.fresh(name, V.VS)
        ip.path.add_qfact(lambda j: z3.Implies(z3.And(j >= 0, j < z3.Length(s)), z3.Or(
            V.is_none(s[j]), V.is_bool(s[j]), V.is_int(s[j]), V.is_float(s[j]), V.is_str(s[j]))))
        return Z(V.VList(s))


def spellings(label, m):
    keys = [f"{label}.{m}"]
    if label.endswith("dtype"):
        keys.append(label.replace("dtype", "type") + "." + m)
    if label.endswith("length"):
        keys.append(label.replace("length", "len") + "." + m)
    if m == "in_":
        keys += [k[:-3] + "in" for k in list(keys)]
    out = []
    for k in keys:
        out += [k, k.upper(), k.title()]
    return out


class EscapedInList(Shape):
    """[{'\\path': ['A', 'B'], 'key': s1}, {'\\path': ['A']}, s2]: escaped literal mappings (several items / one item) as
    items of a list argument, next to a scalar."""

    def make(self, ip, name):
        a = LDict([(C("\\path"), LList([C("A"), C("B")], fresh=False)), (C("key"), Scalar().make(ip, name + "_s1"))], fresh=False)
        b = LDict([(C("\\path"), LList([C("A")], fresh=False))], fresh=False)
        return LList([a, b, Scalar().make(ip, name + "_s2")], fresh=False)


def Unescaped(val):
    """The literal list the escaped spelling of EscapedInList stands for."""
    a, b, s = val
    return [{"path": a["\\path"], "key": a["key"]}, {"path": b["\\path"]}, s]


TYPE_ARGS = [("int", int), ("STR", str), ("Dict", dict), ("map", dict), ("float", float), ("bool", bool), ("list", list)]


def family():
    """[(variant dict, expected-constructor info)] for every leaf shape; argument shapes as the signature admits."""
    out = []
    for cname, cls in CLASSES.items():
        label = CLS_LABEL[cname]
        for m in CLS_CALLABLES[cname]:
            kind, names = SIG[m]
            dtype = cname.endswith("DataType")
            if dtype and (kind, names) != ("pk", ["value"]):
                continue                    # a type pre-processor's argument is a type name (DESIGN §13)
            for key in spellings(label, m):
                if dtype or m in ("is_instance", "keys_is_instance"):
                    for tname, t in TYPE_ARGS[:3]:
                        if kind == "var":
                            out.append((key, Const([tname, "float"]), cls, m, ("consts", (t, float))))
                        else:
                            out.append((key, Const(tname), cls, m, ("consts", (t,))))
                            if dtype and m in ("in_", "not_in") and key == spellings(label, m)[0]:
                                # membership among several types: a list of type names
                                out.append((key, Const([tname, "float"]), cls, m, ("consts", ([t, float],))))
                    continue
                if kind == "none":
                    out.append((key, Const(None), cls, m, ("none",)))
                elif kind == "var":
                    out.append((key, ScalarSeq(), cls, m, ("star",)))
                elif kind == "kw":
                    continue                # **items: mapping argument, bounded stand-in only (see DESIGN §8 C09)
                elif len(names) == 1:
                    out.append((key, Scalar(), cls, m, ("one",)))
                    if m in ("in_", "not_in") or names == ["keys"]:
                        out.append((key, ScalarSeq(), cls, m, ("one",)))
                    if key == spellings(label, m)[0] and m in ("in_", "not_in") and cname == "Value":
                        out.append((key, EscapedInList(), cls, m, ("escaped-list",)))
                    if key == spellings(label, m)[0]:
                        # a literal mapping as the single argument - also one whose only key is the parameter's name: it
                        # is the value to compare with, never a by-name call
                        out.append((key, ScalarMap(names), cls, m, ("one",)))
                        out.append((key, ScalarMap(["other"]), cls, m, ("one",)))
                else:
                    out.append((key, ScalarList(len(names)), cls, m, ("list", len(names))))
                    out.append((key, ScalarMap(names), cls, m, ("map", names)))
    return out


FAMILY = family()


def Expected(spec, cls, m, how):
    """The DSL-built condition for the (only) value of the single-item spec."""
    val = next(iter(spec.values()))
    f = getattr(cls, m)
    if how[0] == "none":
        return f()
    if how[0] == "consts":
        return f(*how[1])
    if how[0] == "star":
        return f(*val)
    if how[0] == "escaped-list":
        return f(Unescaped(val))
    if how[0] == "one":
        return f(val)
    if how[0] == "list":
        return f(*val)
    return f(**val)


contract(
    "valida.conditions:ConditionLike.from_spec",
    variants=[dict(spec=SpecOf(key, val), _cls=Const(cls), _m=Const(m), _how=Const(how)) for key, val, cls, m, how in FAMILY],
    ensures=lambda spec, result, _cls, _m, _how:
        same(result, Expected(spec, _cls, _m, _how)),
    raises={},
    invariants={
        "for v in spec_val":
            lambda k, xs, new_spec_val: len(new_spec_val) == k and is_prefix(new_spec_val, xs),
    },
    serves=["C09", "C16", "C17"],     # C17: data-path specs and escaped literals inside arguments; C16: every store the parser executes targets objects it created (the spec argument is not fresh)
    inline_at_calls=True,      # callers (the round-trip contracts) run the parser's body on their own symbolic value
)

contract(
    "valida.datapath:DataPath.from_spec",
    params=dict(cls=Const(valida.datapath.DataPath), spec=AnyVal()),
    requires=lambda spec: not isinstance(spec, dict),
    raises={"MalformedDataPathSpec": lambda spec: True},
    serves=["C09", "C19"],
    note="only the not-a-mapping case: a scalar / sequence can never be a data path spec",
)
