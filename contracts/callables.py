"""Contracts of valida.callables (generated once from the documented meanings, DESIGN Appendix C; edit the table in
tools/ history, not by hand).  Each callable: the result is the documented comparison over Python's own operators
(`same` = structural identity of the outcome), it is a bool, and it raises exactly when that comparison raises,
never anything outside {TypeError, AttributeError, ZeroDivisionError, ValueError} (what Condition._filter maps to
"not satisfied").  serves: C01 (meaning), C07 (envelope), C14 (a function of its arguments' values)."""
from pyvc.contracts import contract, AnyVal, TupleOf, DictVal
from pyvc.contract_apply import function_family
from spec.prims import same, Raises, is_bool


contract(
    "valida.callables:equal_to",
    params=dict(trial_datum=AnyVal(), value=AnyVal()),
    ensures=lambda trial_datum, value, result:
        is_bool(result) and same(result, trial_datum == value),
    raises={
        "TypeError": lambda trial_datum, value:
            Raises(lambda: trial_datum == value, "TypeError"),
        "AttributeError": lambda trial_datum, value:
            Raises(lambda: trial_datum == value, "AttributeError"),
        "ZeroDivisionError": lambda trial_datum, value:
            Raises(lambda: trial_datum == value, "ZeroDivisionError"),
        "ValueError": lambda trial_datum, value:
            Raises(lambda: trial_datum == value, "ValueError"),
    },
    serves=["C01", "C07", "C14"],
)

contract(
    "valida.callables:not_equal_to",
    params=dict(trial_datum=AnyVal(), value=AnyVal()),
    ensures=lambda trial_datum, value, result:
        is_bool(result) and same(result, trial_datum != value),
    raises={
        "TypeError": lambda trial_datum, value:
            Raises(lambda: trial_datum != value, "TypeError"),
        "AttributeError": lambda trial_datum, value:
            Raises(lambda: trial_datum != value, "AttributeError"),
        "ZeroDivisionError": lambda trial_datum, value:
            Raises(lambda: trial_datum != value, "ZeroDivisionError"),
        "ValueError": lambda trial_datum, value:
            Raises(lambda: trial_datum != value, "ValueError"),
    },
    serves=["C01", "C07", "C14"],
)

contract(
    "valida.callables:less_than",
    params=dict(trial_datum=AnyVal(), value=AnyVal()),
    ensures=lambda trial_datum, value, result:
        is_bool(result) and same(result, trial_datum < value),
    raises={
        "TypeError": lambda trial_datum, value:
            Raises(lambda: trial_datum < value, "TypeError"),
        "AttributeError": lambda trial_datum, value:
            Raises(lambda: trial_datum < value, "AttributeError"),
        "ZeroDivisionError": lambda trial_datum, value:
            Raises(lambda: trial_datum < value, "ZeroDivisionError"),
        "ValueError": lambda trial_datum, value:
            Raises(lambda: trial_datum < value, "ValueError"),
    },
    serves=["C01", "C07", "C14"],
)

contract(
    "valida.callables:greater_than",
    params=dict(trial_datum=AnyVal(), value=AnyVal()),
    ensures=lambda trial_datum, value, result:
        is_bool(result) and same(result, trial_datum > value),
    raises={
        "TypeError": lambda trial_datum, value:
            Raises(lambda: trial_datum > value, "TypeError"),
        "AttributeError": lambda trial_datum, value:
            Raises(lambda: trial_datum > value, "AttributeError"),
        "ZeroDivisionError": lambda trial_datum, value:
            Raises(lambda: trial_datum > value, "ZeroDivisionError"),
        "ValueError": lambda trial_datum, value:
            Raises(lambda: trial_datum > value, "ValueError"),
    },
    serves=["C01", "C07", "C14"],
)

contract(
    "valida.callables:less_than_or_equal_to",
    params=dict(trial_datum=AnyVal(), value=AnyVal()),
    ensures=lambda trial_datum, value, result:
        is_bool(result) and same(result, trial_datum <= value),
    raises={
        "TypeError": lambda trial_datum, value:
            Raises(lambda: trial_datum <= value, "TypeError"),
        "AttributeError": lambda trial_datum, value:
            Raises(lambda: trial_datum <= value, "AttributeError"),
        "ZeroDivisionError": lambda trial_datum, value:
            Raises(lambda: trial_datum <= value, "ZeroDivisionError"),
        "ValueError": lambda trial_datum, value:
            Raises(lambda: trial_datum <= value, "ValueError"),
    },
    serves=["C01", "C07", "C14"],
)

contract(
    "valida.callables:greater_than_or_equal_to",
    params=dict(trial_datum=AnyVal(), value=AnyVal()),
    ensures=lambda trial_datum, value, result:
        is_bool(result) and same(result, trial_datum >= value),
    raises={
        "TypeError": lambda trial_datum, value:
            Raises(lambda: trial_datum >= value, "TypeError"),
        "AttributeError": lambda trial_datum, value:
            Raises(lambda: trial_datum >= value, "AttributeError"),
        "ZeroDivisionError": lambda trial_datum, value:
            Raises(lambda: trial_datum >= value, "ZeroDivisionError"),
        "ValueError": lambda trial_datum, value:
            Raises(lambda: trial_datum >= value, "ValueError"),
    },
    serves=["C01", "C07", "C14"],
)

contract(
    "valida.callables:in_",
    params=dict(trial_datum=AnyVal(), value=AnyVal()),
    ensures=lambda trial_datum, value, result:
        is_bool(result) and same(result, trial_datum in value),
    raises={
        "TypeError": lambda trial_datum, value:
            Raises(lambda: trial_datum in value, "TypeError"),
        "AttributeError": lambda trial_datum, value:
            Raises(lambda: trial_datum in value, "AttributeError"),
        "ZeroDivisionError": lambda trial_datum, value:
            Raises(lambda: trial_datum in value, "ZeroDivisionError"),
        "ValueError": lambda trial_datum, value:
            Raises(lambda: trial_datum in value, "ValueError"),
    },
    serves=["C01", "C07", "C14"],
)

contract(
    "valida.callables:not_in",
    params=dict(trial_datum=AnyVal(), value=AnyVal()),
    ensures=lambda trial_datum, value, result:
        is_bool(result) and same(result, trial_datum not in value),
    raises={
        "TypeError": lambda trial_datum, value:
            Raises(lambda: trial_datum not in value, "TypeError"),
        "AttributeError": lambda trial_datum, value:
            Raises(lambda: trial_datum not in value, "AttributeError"),
        "ZeroDivisionError": lambda trial_datum, value:
            Raises(lambda: trial_datum not in value, "ZeroDivisionError"),
        "ValueError": lambda trial_datum, value:
            Raises(lambda: trial_datum not in value, "ValueError"),
    },
    serves=["C01", "C07", "C14"],
)

contract(
    "valida.callables:in_range",
    params=dict(trial_datum=AnyVal(), lower=AnyVal(), upper=AnyVal()),
    ensures=lambda trial_datum, lower, upper, result:
        is_bool(result) and same(result, trial_datum in range(lower, upper)),
    raises={
        "TypeError": lambda trial_datum, lower, upper:
            Raises(lambda: trial_datum in range(lower, upper), "TypeError"),
        "AttributeError": lambda trial_datum, lower, upper:
            Raises(lambda: trial_datum in range(lower, upper), "AttributeError"),
        "ZeroDivisionError": lambda trial_datum, lower, upper:
            Raises(lambda: trial_datum in range(lower, upper), "ZeroDivisionError"),
        "ValueError": lambda trial_datum, lower, upper:
            Raises(lambda: trial_datum in range(lower, upper), "ValueError"),
    },
    serves=["C01", "C07", "C14"],
)

contract(
    "valida.callables:not_in_range",
    params=dict(trial_datum=AnyVal(), lower=AnyVal(), upper=AnyVal()),
    ensures=lambda trial_datum, lower, upper, result:
        is_bool(result) and same(result, trial_datum not in range(lower, upper)),
    raises={
        "TypeError": lambda trial_datum, lower, upper:
            Raises(lambda: trial_datum not in range(lower, upper), "TypeError"),
        "AttributeError": lambda trial_datum, lower, upper:
            Raises(lambda: trial_datum not in range(lower, upper), "AttributeError"),
        "ZeroDivisionError": lambda trial_datum, lower, upper:
            Raises(lambda: trial_datum not in range(lower, upper), "ZeroDivisionError"),
        "ValueError": lambda trial_datum, lower, upper:
            Raises(lambda: trial_datum not in range(lower, upper), "ValueError"),
    },
    serves=["C01", "C07", "C14"],
)

contract(
    "valida.callables:factor_of",
    params=dict(trial_datum=AnyVal(), value=AnyVal()),
    ensures=lambda trial_datum, value, result:
        is_bool(result) and same(result, value % trial_datum == 0),
    raises={
        "TypeError": lambda trial_datum, value:
            Raises(lambda: value % trial_datum == 0, "TypeError"),
        "AttributeError": lambda trial_datum, value:
            Raises(lambda: value % trial_datum == 0, "AttributeError"),
        "ZeroDivisionError": lambda trial_datum, value:
            Raises(lambda: value % trial_datum == 0, "ZeroDivisionError"),
        "ValueError": lambda trial_datum, value:
            Raises(lambda: value % trial_datum == 0, "ValueError"),
    },
    serves=["C01", "C07", "C14"],
)

contract(
    "valida.callables:has_factor",
    params=dict(trial_datum=AnyVal(), value=AnyVal()),
    ensures=lambda trial_datum, value, result:
        is_bool(result) and same(result, trial_datum % value == 0),
    raises={
        "TypeError": lambda trial_datum, value:
            Raises(lambda: trial_datum % value == 0, "TypeError"),
        "AttributeError": lambda trial_datum, value:
            Raises(lambda: trial_datum % value == 0, "AttributeError"),
        "ZeroDivisionError": lambda trial_datum, value:
            Raises(lambda: trial_datum % value == 0, "ZeroDivisionError"),
        "ValueError": lambda trial_datum, value:
            Raises(lambda: trial_datum % value == 0, "ValueError"),
    },
    serves=["C01", "C07", "C14"],
)

contract(
    "valida.callables:equal_to_approx",
    params=dict(trial_datum=AnyVal(), value=AnyVal(), tolerance=AnyVal()),
    ensures=lambda trial_datum, value, tolerance, result:
        is_bool(result) and same(result, abs(trial_datum - value) < tolerance),
    raises={
        "TypeError": lambda trial_datum, value, tolerance:
            Raises(lambda: abs(trial_datum - value) < tolerance, "TypeError"),
        "AttributeError": lambda trial_datum, value, tolerance:
            Raises(lambda: abs(trial_datum - value) < tolerance, "AttributeError"),
        "ZeroDivisionError": lambda trial_datum, value, tolerance:
            Raises(lambda: abs(trial_datum - value) < tolerance, "ZeroDivisionError"),
        "ValueError": lambda trial_datum, value, tolerance:
            Raises(lambda: abs(trial_datum - value) < tolerance, "ValueError"),
    },
    serves=["C01", "C07", "C14"],
)

contract(
    "valida.callables:truthy",
    params=dict(trial_datum=AnyVal()),
    ensures=lambda trial_datum, result:
        is_bool(result) and same(result, bool(trial_datum)),
    raises={
        "TypeError": lambda trial_datum:
            Raises(lambda: bool(trial_datum), "TypeError"),
        "AttributeError": lambda trial_datum:
            Raises(lambda: bool(trial_datum), "AttributeError"),
        "ZeroDivisionError": lambda trial_datum:
            Raises(lambda: bool(trial_datum), "ZeroDivisionError"),
        "ValueError": lambda trial_datum:
            Raises(lambda: bool(trial_datum), "ValueError"),
    },
    serves=["C01", "C07", "C14"],
)

contract(
    "valida.callables:falsy",
    params=dict(trial_datum=AnyVal()),
    ensures=lambda trial_datum, result:
        is_bool(result) and same(result, not trial_datum),
    raises={
        "TypeError": lambda trial_datum:
            Raises(lambda: not trial_datum, "TypeError"),
        "AttributeError": lambda trial_datum:
            Raises(lambda: not trial_datum, "AttributeError"),
        "ZeroDivisionError": lambda trial_datum:
            Raises(lambda: not trial_datum, "ZeroDivisionError"),
        "ValueError": lambda trial_datum:
            Raises(lambda: not trial_datum, "ValueError"),
    },
    serves=["C01", "C07", "C14"],
)

contract(
    "valida.callables:null",
    params=dict(trial_data=AnyVal()),
    ensures=lambda trial_data, result:
        is_bool(result) and same(result, True),
    raises={
        "TypeError": lambda trial_data:
            Raises(lambda: True, "TypeError"),
        "AttributeError": lambda trial_data:
            Raises(lambda: True, "AttributeError"),
        "ZeroDivisionError": lambda trial_data:
            Raises(lambda: True, "ZeroDivisionError"),
        "ValueError": lambda trial_data:
            Raises(lambda: True, "ValueError"),
    },
    serves=["C01", "C07", "C14"],
)

contract(
    "valida.callables:is_instance",
    params=dict(trial_datum=AnyVal(), classes=TupleOf()),
    ensures=lambda trial_datum, classes, result:
        is_bool(result) and same(result, isinstance(trial_datum, classes)),
    raises={
        "TypeError": lambda trial_datum, classes:
            Raises(lambda: isinstance(trial_datum, classes), "TypeError"),
        "AttributeError": lambda trial_datum, classes:
            Raises(lambda: isinstance(trial_datum, classes), "AttributeError"),
        "ZeroDivisionError": lambda trial_datum, classes:
            Raises(lambda: isinstance(trial_datum, classes), "ZeroDivisionError"),
        "ValueError": lambda trial_datum, classes:
            Raises(lambda: isinstance(trial_datum, classes), "ValueError"),
    },
    serves=["C01", "C07", "C14"],
)

contract(
    "valida.callables:keys_contain",
    params=dict(trial_dict=AnyVal(), key=AnyVal()),
    ensures=lambda trial_dict, key, result:
        is_bool(result) and same(result, key in trial_dict.keys()),
    raises={
        "TypeError": lambda trial_dict, key:
            Raises(lambda: key in trial_dict.keys(), "TypeError"),
        "AttributeError": lambda trial_dict, key:
            Raises(lambda: key in trial_dict.keys(), "AttributeError"),
        "ZeroDivisionError": lambda trial_dict, key:
            Raises(lambda: key in trial_dict.keys(), "ZeroDivisionError"),
        "ValueError": lambda trial_dict, key:
            Raises(lambda: key in trial_dict.keys(), "ValueError"),
    },
    serves=["C01", "C07", "C14"],
)

contract(
    "valida.callables:keys_contain_any_of",
    params=dict(trial_dict=AnyVal(), keys=TupleOf()),
    ensures=lambda trial_dict, keys, result:
        is_bool(result) and same(result, any(k in trial_dict.keys() for k in keys)),
    raises={
        "TypeError": lambda trial_dict, keys:
            Raises(lambda: any(k in trial_dict.keys() for k in keys), "TypeError"),
        "AttributeError": lambda trial_dict, keys:
            Raises(lambda: any(k in trial_dict.keys() for k in keys), "AttributeError"),
        "ZeroDivisionError": lambda trial_dict, keys:
            Raises(lambda: any(k in trial_dict.keys() for k in keys), "ZeroDivisionError"),
        "ValueError": lambda trial_dict, keys:
            Raises(lambda: any(k in trial_dict.keys() for k in keys), "ValueError"),
    },
    serves=["C01", "C07", "C14"],
)

contract(
    "valida.callables:keys_contain_all_of",
    params=dict(trial_dict=AnyVal(), keys=TupleOf()),
    ensures=lambda trial_dict, keys, result:
        is_bool(result) and same(result, all(k in trial_dict.keys() for k in keys)),
    raises={
        "TypeError": lambda trial_dict, keys:
            Raises(lambda: all(k in trial_dict.keys() for k in keys), "TypeError"),
        "AttributeError": lambda trial_dict, keys:
            Raises(lambda: all(k in trial_dict.keys() for k in keys), "AttributeError"),
        "ZeroDivisionError": lambda trial_dict, keys:
            Raises(lambda: all(k in trial_dict.keys() for k in keys), "ZeroDivisionError"),
        "ValueError": lambda trial_dict, keys:
            Raises(lambda: all(k in trial_dict.keys() for k in keys), "ValueError"),
    },
    serves=["C01", "C07", "C14"],
)

contract(
    "valida.callables:keys_contain_N_of",
    params=dict(trial_dict=AnyVal(), N=AnyVal(), keys=AnyVal()),
    ensures=lambda trial_dict, N, keys, result:
        is_bool(result) and same(result, sum(k in trial_dict.keys() for k in keys) == N),
    raises={
        "TypeError": lambda trial_dict, N, keys:
            Raises(lambda: sum(k in trial_dict.keys() for k in keys) == N, "TypeError"),
        "AttributeError": lambda trial_dict, N, keys:
            Raises(lambda: sum(k in trial_dict.keys() for k in keys) == N, "AttributeError"),
        "ZeroDivisionError": lambda trial_dict, N, keys:
            Raises(lambda: sum(k in trial_dict.keys() for k in keys) == N, "ZeroDivisionError"),
        "ValueError": lambda trial_dict, N, keys:
            Raises(lambda: sum(k in trial_dict.keys() for k in keys) == N, "ValueError"),
    },
    serves=["C01", "C07", "C14"],
)

contract(
    "valida.callables:keys_contain_at_least_N_of",
    params=dict(trial_dict=AnyVal(), N=AnyVal(), keys=AnyVal()),
    ensures=lambda trial_dict, N, keys, result:
        is_bool(result) and same(result, sum(k in trial_dict.keys() for k in keys) >= N),
    raises={
        "TypeError": lambda trial_dict, N, keys:
            Raises(lambda: sum(k in trial_dict.keys() for k in keys) >= N, "TypeError"),
        "AttributeError": lambda trial_dict, N, keys:
            Raises(lambda: sum(k in trial_dict.keys() for k in keys) >= N, "AttributeError"),
        "ZeroDivisionError": lambda trial_dict, N, keys:
            Raises(lambda: sum(k in trial_dict.keys() for k in keys) >= N, "ZeroDivisionError"),
        "ValueError": lambda trial_dict, N, keys:
            Raises(lambda: sum(k in trial_dict.keys() for k in keys) >= N, "ValueError"),
    },
    serves=["C01", "C07", "C14"],
)

contract(
    "valida.callables:keys_contain_at_most_N_of",
    params=dict(trial_dict=AnyVal(), N=AnyVal(), keys=AnyVal()),
    ensures=lambda trial_dict, N, keys, result:
        is_bool(result) and same(result, sum(k in trial_dict.keys() for k in keys) <= N),
    raises={
        "TypeError": lambda trial_dict, N, keys:
            Raises(lambda: sum(k in trial_dict.keys() for k in keys) <= N, "TypeError"),
        "AttributeError": lambda trial_dict, N, keys:
            Raises(lambda: sum(k in trial_dict.keys() for k in keys) <= N, "AttributeError"),
        "ZeroDivisionError": lambda trial_dict, N, keys:
            Raises(lambda: sum(k in trial_dict.keys() for k in keys) <= N, "ZeroDivisionError"),
        "ValueError": lambda trial_dict, N, keys:
            Raises(lambda: sum(k in trial_dict.keys() for k in keys) <= N, "ValueError"),
    },
    serves=["C01", "C07", "C14"],
)

contract(
    "valida.callables:keys_contain_one_of",
    params=dict(trial_dict=AnyVal(), keys=TupleOf()),
    ensures=lambda trial_dict, keys, result:
        is_bool(result) and same(result, sum(k in trial_dict.keys() for k in keys) == 1),
    raises={
        "TypeError": lambda trial_dict, keys:
            Raises(lambda: sum(k in trial_dict.keys() for k in keys) == 1, "TypeError"),
        "AttributeError": lambda trial_dict, keys:
            Raises(lambda: sum(k in trial_dict.keys() for k in keys) == 1, "AttributeError"),
        "ZeroDivisionError": lambda trial_dict, keys:
            Raises(lambda: sum(k in trial_dict.keys() for k in keys) == 1, "ZeroDivisionError"),
        "ValueError": lambda trial_dict, keys:
            Raises(lambda: sum(k in trial_dict.keys() for k in keys) == 1, "ValueError"),
    },
    serves=["C01", "C07", "C14"],
)

contract(
    "valida.callables:keys_contain_at_least_one_of",
    params=dict(trial_dict=AnyVal(), keys=AnyVal()),
    ensures=lambda trial_dict, keys, result:
        is_bool(result) and same(result, sum(k in trial_dict.keys() for k in keys) >= 1),
    raises={
        "TypeError": lambda trial_dict, keys:
            Raises(lambda: sum(k in trial_dict.keys() for k in keys) >= 1, "TypeError"),
        "AttributeError": lambda trial_dict, keys:
            Raises(lambda: sum(k in trial_dict.keys() for k in keys) >= 1, "AttributeError"),
        "ZeroDivisionError": lambda trial_dict, keys:
            Raises(lambda: sum(k in trial_dict.keys() for k in keys) >= 1, "ZeroDivisionError"),
        "ValueError": lambda trial_dict, keys:
            Raises(lambda: sum(k in trial_dict.keys() for k in keys) >= 1, "ValueError"),
    },
    serves=["C01", "C07", "C14"],
)

contract(
    "valida.callables:keys_contain_at_most_one_of",
    params=dict(trial_dict=AnyVal(), keys=AnyVal()),
    ensures=lambda trial_dict, keys, result:
        is_bool(result) and same(result, sum(k in trial_dict.keys() for k in keys) <= 1),
    raises={
        "TypeError": lambda trial_dict, keys:
            Raises(lambda: sum(k in trial_dict.keys() for k in keys) <= 1, "TypeError"),
        "AttributeError": lambda trial_dict, keys:
            Raises(lambda: sum(k in trial_dict.keys() for k in keys) <= 1, "AttributeError"),
        "ZeroDivisionError": lambda trial_dict, keys:
            Raises(lambda: sum(k in trial_dict.keys() for k in keys) <= 1, "ZeroDivisionError"),
        "ValueError": lambda trial_dict, keys:
            Raises(lambda: sum(k in trial_dict.keys() for k in keys) <= 1, "ValueError"),
    },
    serves=["C01", "C07", "C14"],
)

contract(
    "valida.callables:keys_equal_to",
    params=dict(trial_dict=AnyVal(), keys=TupleOf()),
    ensures=lambda trial_dict, keys, result:
        is_bool(result) and same(result, set(trial_dict.keys()) == set(keys)),
    raises={
        "TypeError": lambda trial_dict, keys:
            Raises(lambda: set(trial_dict.keys()) == set(keys), "TypeError"),
        "AttributeError": lambda trial_dict, keys:
            Raises(lambda: set(trial_dict.keys()) == set(keys), "AttributeError"),
        "ZeroDivisionError": lambda trial_dict, keys:
            Raises(lambda: set(trial_dict.keys()) == set(keys), "ZeroDivisionError"),
        "ValueError": lambda trial_dict, keys:
            Raises(lambda: set(trial_dict.keys()) == set(keys), "ValueError"),
    },
    serves=["C01", "C07", "C14"],
)

contract(
    "valida.callables:keys_is_instance",
    params=dict(trial_dict=AnyVal(), classes=TupleOf()),
    ensures=lambda trial_dict, classes, result:
        is_bool(result) and same(result, all(isinstance(i, classes) for i in trial_dict.keys())),
    raises={
        "TypeError": lambda trial_dict, classes:
            Raises(lambda: all(isinstance(i, classes) for i in trial_dict.keys()), "TypeError"),
        "AttributeError": lambda trial_dict, classes:
            Raises(lambda: all(isinstance(i, classes) for i in trial_dict.keys()), "AttributeError"),
        "ZeroDivisionError": lambda trial_dict, classes:
            Raises(lambda: all(isinstance(i, classes) for i in trial_dict.keys()), "ZeroDivisionError"),
        "ValueError": lambda trial_dict, classes:
            Raises(lambda: all(isinstance(i, classes) for i in trial_dict.keys()), "ValueError"),
    },
    serves=["C01", "C07", "C14"],
)

contract(
    "valida.callables:allowed_keys",
    params=dict(trial_dict=AnyVal(), keys=TupleOf()),
    ensures=lambda trial_dict, keys, result:
        is_bool(result) and same(result, not (set(trial_dict.keys()) - set(keys))),
    raises={
        "TypeError": lambda trial_dict, keys:
            Raises(lambda: not (set(trial_dict.keys()) - set(keys)), "TypeError"),
        "AttributeError": lambda trial_dict, keys:
            Raises(lambda: not (set(trial_dict.keys()) - set(keys)), "AttributeError"),
        "ZeroDivisionError": lambda trial_dict, keys:
            Raises(lambda: not (set(trial_dict.keys()) - set(keys)), "ZeroDivisionError"),
        "ValueError": lambda trial_dict, keys:
            Raises(lambda: not (set(trial_dict.keys()) - set(keys)), "ValueError"),
    },
    serves=["C01", "C07", "C14"],
)

contract(
    "valida.callables:required_keys",
    params=dict(trial_dict=AnyVal(), keys=TupleOf()),
    ensures=lambda trial_dict, keys, result:
        is_bool(result) and same(result, not (set(keys) - set(trial_dict.keys()))),
    raises={
        "TypeError": lambda trial_dict, keys:
            Raises(lambda: not (set(keys) - set(trial_dict.keys())), "TypeError"),
        "AttributeError": lambda trial_dict, keys:
            Raises(lambda: not (set(keys) - set(trial_dict.keys())), "AttributeError"),
        "ZeroDivisionError": lambda trial_dict, keys:
            Raises(lambda: not (set(keys) - set(trial_dict.keys())), "ZeroDivisionError"),
        "ValueError": lambda trial_dict, keys:
            Raises(lambda: not (set(keys) - set(trial_dict.keys())), "ValueError"),
    },
    serves=["C01", "C07", "C14"],
)

contract(
    "valida.callables:forbidden_keys",
    params=dict(trial_dict=AnyVal(), keys=TupleOf()),
    ensures=lambda trial_dict, keys, result:
        is_bool(result) and same(result, not (set(keys) & set(trial_dict.keys()))),
    raises={
        "TypeError": lambda trial_dict, keys:
            Raises(lambda: not (set(keys) & set(trial_dict.keys())), "TypeError"),
        "AttributeError": lambda trial_dict, keys:
            Raises(lambda: not (set(keys) & set(trial_dict.keys())), "AttributeError"),
        "ZeroDivisionError": lambda trial_dict, keys:
            Raises(lambda: not (set(keys) & set(trial_dict.keys())), "ZeroDivisionError"),
        "ValueError": lambda trial_dict, keys:
            Raises(lambda: not (set(keys) & set(trial_dict.keys())), "ValueError"),
    },
    serves=["C01", "C07", "C14"],
)


def _items_contain_spec(trial_dict, items):
    for k, v in items.items():
        try:
            if trial_dict[k] != v:
                return False
        except KeyError:
            return False
    return True

CALLABLE_NAMES = ["valida.callables:equal_to", "valida.callables:not_equal_to", "valida.callables:less_than", "valida.callables:greater_than", "valida.callables:less_than_or_equal_to", "valida.callables:greater_than_or_equal_to", "valida.callables:in_", "valida.callables:not_in", "valida.callables:in_range", "valida.callables:not_in_range", "valida.callables:factor_of", "valida.callables:has_factor", "valida.callables:equal_to_approx", "valida.callables:truthy", "valida.callables:falsy", "valida.callables:null", "valida.callables:is_instance", "valida.callables:keys_contain", "valida.callables:keys_contain_any_of", "valida.callables:keys_contain_all_of", "valida.callables:keys_contain_N_of", "valida.callables:keys_contain_at_least_N_of", "valida.callables:keys_contain_at_most_N_of", "valida.callables:keys_contain_one_of", "valida.callables:keys_contain_at_least_one_of", "valida.callables:keys_contain_at_most_one_of", "valida.callables:keys_equal_to", "valida.callables:keys_is_instance", "valida.callables:allowed_keys", "valida.callables:required_keys", "valida.callables:forbidden_keys", "valida.callables:items_contain"]
function_family(
    name="callables",
    members=CALLABLE_NAMES,
    raises=['TypeError', 'AttributeError', 'ZeroDivisionError', 'ValueError'],
    result_is_bool=True,
)
