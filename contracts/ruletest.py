"""RuleTest._test (C05): a rule is valid iff every node its path selects satisfies its condition; nothing selected =>
valid and not tested; the failures are exactly the selected nodes that do not satisfy, in selection order, each with
its concrete path, its value and at least one reason.

Stated over what the two collaborators return - the path's selection with paths (contracts/walk.py proves get_data
against the walk) and the condition's filtered view of that selection (one verdict per selected node, values and paths
split and aligned: interface contract, assumed here) - so that what is proved is the verdict / failure-list logic."""
from pyvc.contracts import contract, interface, AnyVal, Obj, Const, TupleOf, Bool, ListOf, Shape
from spec.prims import same, forall_idx, is_bool, as_obj
from spec.walk import FailIdx, PathExists
import valida.conditions as cnds
import valida.data
from valida.datapath import DataPath
from valida.rules import Rule, RuleTest, RuleTestFailureItem

interface(
    "path.get_data",
    param_names=[("self", None), ("data", None), ("return_paths", False)],
    returns=AnyVal(),
    ensures=lambda self, result:
        (result is None or (isinstance(result, tuple) and len(result) == 2)) if self.is_concrete else isinstance(result, list),
    raises={},
    assumed=True,
    note="DataPath.get_data(data, return_paths=True) without multiplicity modifier: None / one (value, path) pair for a "
         "concrete path, a list of pairs otherwise (contracts/walk.py: `Resolved`)",
)
interface(
    "cond.filter",
    param_names=[("self", None), ("data", None), ("data_has_paths", False), ("source_data", None)],
    returns=Obj(valida.data.FilteredData, fresh=True, result=ListOf(), concrete_paths=ListOf(),
                source=Obj(valida.data.Data, fresh=True, _keys=TupleOf(), _values=TupleOf(), _is_list=Const(True))),
    ensures=lambda self, data, result:
        len(result.result) == len(data) and len(result.concrete_paths) == len(data) and len(result.source._values) == len(data)
        and forall_idx(len(data), lambda j: is_bool(result.result[j])),
    raises={},
    assumed=True,
    note="ConditionLike.filter(pairs, data_has_paths=True): one verdict per selected node; the view's source values and "
         "concrete_paths are the first / second components of the pairs, index by index (Data.extract_paths; not used by the "
         "proof of _test, which speaks about the view's own value and path sequences)",
)
interface(
    "fd.reasons",
    param_names=[("self", None), ("idx", None)],
    returns=TupleOf(),
    ensures=lambda self, idx, result: bool(self.result[idx]) or len(result) >= 1,
    raises={},
    assumed=True,
    note="FilteredDataLike.get_failure_by_index: at least one reason for an item that does not satisfy the condition",
)

FI = RuleTestFailureItem


def _witnesses():
    from valida.datapath import MapValue, ListValue
    from valida.conditions import Value
    out = []
    docs = [{"a": [1, 5, 2, 7, 0]}, {"a": {"x": 1, "y": 5, "z": 2}, "b": 3}, [4, 1, 6, 0], {"a": [5, 6]}, {"a": 1}]
    for parts in (("a", ListValue()), (ListValue(),), ("a", MapValue()), (MapValue(),), ("a",), ("zz",), ("a", 1)):
        for cond in (Value.lt(3), Value.dtype.equal_to(int) & Value.gt(1), Value.gt(100), Value.lt(100)):
            for d in docs:
                rt = object.__new__(RuleTest)
                rt.rule = Rule(path=parts, condition=cond)
                rt.data = valida.data.Data(d)
                rt._tested, rt._is_valid, rt._failures = False, None, None
                out.append(dict(self=rt))
    return out

contract(
    "valida.rules:RuleTest._test",
    params=dict(self=Obj(RuleTest, by_ref=True, rule=Obj(Rule, path=Obj(DataPath, is_concrete=Bool()), condition=Obj(cnds.ConditionLike)),
                         data=Obj(valida.data.Data, _keys=TupleOf(), _values=TupleOf(), _is_list=Bool()),
                         _tested=Const(False), _is_valid=Const(None), _failures=Const(None))),
    modifies=["self._is_valid", "self._tested", "self._failures", "self.sub_data", "self.filter"],
    uses_interfaces={"DataPath.get_data": "path.get_data", "ConditionLike.filter": "cond.filter",
                     "FilteredDataLike.get_failure_by_index": "fd.reasons"},
    invariants={
        "for f_item in filtered_data":
            lambda k, xs, filtered_data, failures:
                len(failures) == len(FailIdx(xs, k))
                and forall_idx(len(failures), lambda i:
                               same(as_obj(failures[i], FI).index, FailIdx(xs, k)[i])
                               and same(as_obj(failures[i], FI).value, filtered_data.source._values[FailIdx(xs, k)[i]])
                               and same(as_obj(failures[i], FI).path, filtered_data.concrete_paths[FailIdx(xs, k)[i]])
                               and len(as_obj(failures[i], FI).reasons) >= 1),
    },
    ensures=lambda self:
        (self._tested is True and self._is_valid == all(self.filter.result)
         and (len(self._failures) == 0 if self._is_valid else (
             len(self._failures) == len(FailIdx(self.filter.result, len(self.filter.result)))
             and forall_idx(len(self._failures), lambda i:
                            same(as_obj(self._failures[i], FI).index, FailIdx(self.filter.result, len(self.filter.result))[i])
                            and same(as_obj(self._failures[i], FI).value,
                                     self.filter.source._values[FailIdx(self.filter.result, len(self.filter.result))[i]])
                            and same(as_obj(self._failures[i], FI).path,
                                     self.filter.concrete_paths[FailIdx(self.filter.result, len(self.filter.result))[i]])
                            and len(as_obj(self._failures[i], FI).reasons) >= 1))))
        if PathExists(self) else
        (self._tested is False and self._is_valid is True and len(self._failures) == 0 and self.filter is None),
    raises={},
    min_timeout_ms=60000,       # one conjunct of the loop-invariant step needs a case split z3 finds only slowly
    witnesses=_witnesses,
    serves=["C05"],
)
