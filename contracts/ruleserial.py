"""Rule serialisation round trip (C13): for rules built through the API - a path of primitive parts with arbitrary
string / integer keys, a DSL-built leaf condition with arbitrary scalar arguments, and each of the cast declarations the
library knows (none, empty, str->bool, str->int, both) - `to_json_like()` is JSON-compatible data and
`Rule.from_json_like` of it equals the rule (path, condition and cast).  Both directions run the real code."""
from pyvc.contracts import contract, Const, Shape, Str, Int
from pyvc.sym import C, LDict
from spec.prims import IsJson
import valida.conditions as cnds
from valida.casting import cast_string_to_bool
from valida.datapath import DataPath
from valida.rules import Rule
from contracts.specs import Scalar
from contracts.serial import DslLeaf


class ApiRule(Shape):
    def __init__(self, parts, cond, cast):
        self.parts, self.cond, self.cast = parts, cond, cast

    def make(self, ip, name):
        parts = [p.make(ip, f"{name}_p{i}") for i, p in enumerate(self.parts)]
        path = ip.call(C(DataPath), parts, {})
        cond = self.cond.make(ip, f"{name}_c")
        cast = ip.wrap(None) if self.cast is None else LDict([(C(k), C(v)) for k, v in self.cast.items()], fresh=False)
        rule = ip.call(C(Rule), [], {"path": path, "condition": cond, "cast": cast})

        def age(o, seen):
            from pyvc.sym import SObj, LTuple, LList
            if id(o) in seen:
                return
            seen.add(id(o))
            if isinstance(o, SObj):
                o.fresh = False
                for v in o.attrs.values():
                    age(v, seen)
            elif isinstance(o, (LTuple, LList)) and getattr(o, "items", None):
                for v in o.items:
                    age(v, seen)
        age(rule, set())
        return rule


PATHS = [[], [Str()], [Str(), Int()], [Int(), Str()]]
CONDS = [DslLeaf(cnds.Value, "less_than", [Scalar()]), DslLeaf(cnds.ValueDataType, "equal_to", [Const(int)]),
         DslLeaf(cnds.ValueLength, "in_range", [Scalar(), Scalar()]), DslLeaf(cnds.Value, "keys_contain_any_of", [Scalar(), Scalar()])]
CASTS = [None, {}, {str: cast_string_to_bool}, {str: int}]

contract(
    "valida.rules:Rule.to_json_like",
    variants=[dict(self=ApiRule(p, c, k)) for p in PATHS for c in CONDS for k in CASTS],
    ensures=lambda self, result:
        IsJson(result) and Rule.from_json_like(result) == self,
    raises={},
    serves=["C13"],
)


# ------------------------------------------------------------------------------------------ schemas
from valida.schema import Schema


class ApiSchema(Shape):
    """Schema([...]) over API-built rules; `twice` lists the first rule a second time (the same rule object)."""

    def __init__(self, rules, twice=False):
        self.rules, self.twice = rules, twice

    def make(self, ip, name):
        from pyvc.sym import LList
        rs = [r.make(ip, f"{name}_r{i}") for i, r in enumerate(self.rules)]
        if self.twice:
            rs.append(rs[0])
        s = ip.call(C(Schema), [LList(rs)], {})
        s.fresh = False
        if hasattr(s.attrs.get("rules"), "fresh"):
            s.attrs["rules"].fresh = False
        return s


R_A = ApiRule([Str()], CONDS[0], None)
R_B = ApiRule([Str(), Int()], CONDS[1], {str: int})
R_C = ApiRule([], CONDS[2], {})
SCHEMAS = [ApiSchema([]), ApiSchema([R_A]), ApiSchema([R_B, R_A]), ApiSchema([R_A, R_C]), ApiSchema([R_B, R_C, R_A]),
           ApiSchema([R_A], twice=True), ApiSchema([R_B, R_A], twice=True)]

contract(
    "valida.schema:Schema.to_json_like",
    variants=[dict(self=s) for s in SCHEMAS],
    ensures=lambda self, result:
        IsJson(result) and len(result) == len(self.rules) and Schema.from_json_like(result) == self,
    raises={},
    serves=["C13"],
    note="a schema is a list of rules (repeated rules included), written and rebuilt rule by rule, in order",
)
