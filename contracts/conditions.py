"""Contracts of valida.conditions (evaluation side): Condition._filter, ConditionLike.filter/test/test_all,
KeyLike/IndexLike.filter, the binary operators.  Oracle: spec/meaning.py."""
from pyvc.contracts import contract, AnyVal, JsonVal, TupleOf, DictVal, Const, Obj, FuncVal, Bool, ListOf
from spec.prims import same, forall_idx, is_fresh, is_bool, fst, snd
from spec.meaning import Items, PreErr, CallErr, CallFalse, Meaning
import valida.conditions as cnds
import valida.data
from contracts.callables import CALLABLE_NAMES

LEAF_CLASSES = [cnds.Value, cnds.ValueLength, cnds.ValueDataType, cnds.Key, cnds.KeyLength, cnds.KeyDataType, cnds.Index,
                cnds.NullCondition]


def LeafShape(cls):
    """A DSL-built leaf condition of class cls: its prepared callable is one of the library's comparisons with
    arbitrary stored arguments (WellBound is what the DSL constructor contracts establish)."""
    return Obj(cls, callable=Obj("valida.conditions:PreparedConditionCallable", _func=FuncVal(CALLABLE_NAMES),
                                 _args=TupleOf(), _kwargs=DictVal()))


def DataShape():
    return Obj("valida.data:Data", _keys=TupleOf(), _values=TupleOf(), _is_list=Bool())


contract(
    "valida.conditions:Condition._filter",
    variants=[dict(self=LeafShape(c)) for c in LEAF_CLASSES],
    params=dict(data=DataShape(), data_has_paths=Const(False), source_data=Const(None)),
    invariants={
        "for datum in getattr(data, self.DATUM_TYPE.value)()":
            lambda k, xs, self, processed, pre_processor_error, callable_error, callable_false:
                len(processed) == k and len(pre_processor_error) == k and len(callable_error) == k
                and len(callable_false) == k
                and forall_idx(k, lambda j: same(pre_processor_error[j], PreErr(self, xs[j]))
                               and same(callable_error[j], CallErr(self, xs[j]))
                               and same(callable_false[j], CallFalse(self, xs[j]))),
    },
    ensures=lambda self, data, result:
        type(result) is valida.data.FilteredData and is_fresh(result)
        and result.condition is self and result.source is data and result.concrete_paths is None
        and len(result.result) == len(Items(self, data))
        and len(result.pre_processor_error) == len(result.result) and len(result.callable_error) == len(result.result)
        and len(result.callable_false) == len(result.result)
        and forall_idx(len(result.result), lambda j: same(result.result[j], Meaning(self, Items(self, data)[j]))
                       and is_bool(result.pre_processor_error[j]) and is_bool(result.callable_error[j])
                       and is_bool(result.callable_false[j])),
    raises={},
    returns=Obj("valida.data:FilteredData", fresh=True, result=ListOf(fresh=True), pre_processor_error=ListOf(fresh=True),
                callable_error=ListOf(fresh=True), callable_false=ListOf(fresh=True), concrete_paths=Const(None), processed=ListOf(fresh=True)),
    result_aliases=dict(source="data", condition="self"),
    serves=["C01", "C07", "C08"],
)


# ------------------------------------------------------------------------------------------ with paths attached (C05)
def PairsData():
    return Obj("valida.data:Data", _keys=TupleOf(), _values=TupleOf(), _is_list=Const(True))


contract(
    "valida.conditions:Condition._filter#paths",
    variants=[dict(self=LeafShape(c)) for c in (cnds.Value, cnds.ValueLength, cnds.ValueDataType, cnds.NullCondition)],
    params=dict(data=PairsData(), data_has_paths=Const(True), source_data=Const(None)),
    requires=lambda data:
        len(data._keys) == len(data._values) and len(data._values) > 0
        and forall_idx(len(data._values), lambda j: isinstance(data._values[j], tuple) and len(data._values[j]) == 2),
    modifies=["data._values"],
    invariants={
        "for datum in getattr(data, self.DATUM_TYPE.value)()":
            lambda k, xs, self, processed, pre_processor_error, callable_error, callable_false:
                len(processed) == k and len(pre_processor_error) == k and len(callable_error) == k
                and len(callable_false) == k
                and forall_idx(k, lambda j: same(pre_processor_error[j], PreErr(self, fst(xs[j])))
                               and same(callable_error[j], CallErr(self, fst(xs[j])))
                               and same(callable_false[j], CallFalse(self, fst(xs[j])))),
    },
    ensures=lambda self, data, result, old:
        type(result) is valida.data.FilteredData and result.source is data
        and len(result.result) == len(old["data._values"]) and len(result.concrete_paths) == len(old["data._values"])
        and len(data._values) == len(old["data._values"])
        and forall_idx(len(old["data._values"]), lambda j:
                       same(result.result[j], Meaning(self, fst(old["data._values"][j])))
                       and same(data._values[j], fst(old["data._values"][j]))
                       and same(result.concrete_paths[j], snd(old["data._values"][j]))),
    raises={},
    fuel=True,
    returns=Obj("valida.data:FilteredData", fresh=True, result=ListOf(fresh=True), pre_processor_error=ListOf(fresh=True),
                callable_error=ListOf(fresh=True), callable_false=ListOf(fresh=True), concrete_paths=TupleOf(), processed=ListOf(fresh=True)),
    result_aliases=dict(source="data", condition="self"),
    serves=["C05"],
    note="the selection arrives as (value, path) pairs: one verdict per pair on its value; values and paths are split, aligned "
         "(the leaf case of the `cond.filter` interface used by RuleTest._test, for conditions without data-path arguments)",
)
