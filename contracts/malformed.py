"""Malformed specs (C19): a spec with one definite error of the classes the property lists - unknown datum kind,
pre-processor, callable, type name, part type or part argument; wrong arity or argument shape; several keys where one is
required; a pre-processor the datum kind does not have - is *rejected*, and with one of the library's Malformed* errors,
TypeError or ValueError: never accepted, never an internal error (AttributeError, IndexError, KeyError, ...).
Family of error shapes with arbitrary scalar arguments; the parsers' real bodies are executed."""
from pyvc.contracts import contract, Const, Shape
from pyvc.sym import LDict, LList, C
from contracts.specs import Scalar

SPEC_ERRORS = {"MalformedConditionLikeSpec": True, "MalformedContainerItemSpec": True, "MalformedDataPathSpec": True,
               "MalformedRuleSpec": True, "TypeError": True, "ValueError": True}


class SpecWith(Shape):
    """A mapping with the given keys; every `...` value is an arbitrary scalar, lists of `...` likewise."""

    def __init__(self, template):
        self.template = template

    def make(self, ip, name):
        n = [0]

        def build(t):
            if t is ...:
                n[0] += 1
                return Scalar().make(ip, f"{name}_s{n[0]}")
            if isinstance(t, dict):
                return LDict([(C(k), build(v)) for k, v in t.items()], fresh=False)
            if isinstance(t, list):
                return LList([build(v) for v in t], fresh=False)
            return ip.wrap(t)
        return build(self.template)


BAD_CONDITIONS = [
    {"bad_key": ...}, {"value": ...}, {"value.length": ...}, {"value.bogus.equal_to": ...}, {"value.not_a_callable": ...},
    {"banana.equal_to": ...}, {"index.length.equal_to": ...}, {"index.len.greater_than": ...}, {"index.dtype.equal_to": "int"},
    {"index.type.in": ["int", "float"]}, {"key.equal_to": ..., "value.equal_to": ...}, {"value.dtype.equal_to": "nonsense"},
    {"value.type.in": ["int", "nonsense"]}, {"value.in_range": [...]}, {"value.in_range": [..., ..., ..., ...]},
    {"value.in_range": {"lower": ..., "uper": ...}}, {"value.equal_to.extra.tokens": ...}, {"value.is_instance": "nonsense"},
    # a real callable name on a class that does not have it
    {"index.keys_contain": ...}, {"value.length.allowed_keys": [..., ...]}, {"key.dtype.keys_equal_to": [...]}, {"index.items_contain": {"a": ...}},
    {"value.len.keys_is_instance": "int"},
    {"and": [{"value.equal_to": ...}, {"bad_key": ...}]}, {"or": [{"index.length.equal_to": ...}, {"value.equal_to": ...}]},
]

contract(
    "valida.conditions:ConditionLike.from_spec#malformed",
    variants=[dict(spec=SpecWith(t)) for t in BAD_CONDITIONS],
    ensures=lambda spec: False,
    raises=SPEC_ERRORS,
    serves=["C19"],
    note="every member carries one definite error: it must be rejected, and only with a spec error",
)

BAD_PARTS = [
    {"type": "bogus_value"}, {"type": "map_value", "index": {"index.equal_to": ...}}, {"type": "list_value", "key": {"key.equal_to": ...}},
    {"type": "map_value", "unknown_argument": ...}, {"type": "map_value", "key": {"value.equal_to": ...}},
    {"type": "list_value", "index": {"key.equal_to": ...}}, {"type": "map_value", "value": {"key.equal_to": ...}},
    {"type": "map_value", "key": {"bad_key": ...}}, {"type": "list_value", "index.length.equal_to": ...},
    {"type": "map_value", "index.equal_to": ...}, {"type": "list_value", "key.equal_to": ...},
]

contract(
    "valida.datapath:ContainerValue.from_spec#malformed",
    variants=[dict(spec=SpecWith(t)) for t in BAD_PARTS],
    ensures=lambda spec: False,
    raises=SPEC_ERRORS,
    serves=["C19"],
)

BAD_PATHS = [
    {"path.bogus": ["a"]}, {"path.first.length.extra": ["a"]}, {"notpath": ["a"]}, {"path": ["a"], "path.length": ["b"]},
    {"path.first.last": ["a"]}, {"path.length.dtype": ["a"]}, {"path.first": ["a", 0]},
]
contract(
    "valida.datapath:DataPath.from_spec#malformed",
    params=dict(cls=Const(__import__("valida.datapath").datapath.DataPath)),
    variants=[dict(spec=SpecWith(t)) for t in BAD_PATHS],
    ensures=lambda spec: False,
    raises=SPEC_ERRORS,
    serves=["C19"],
    note="unknown / repeated / too many suffix tokens, wrong prefix, several keys, a multiplicity modifier on a concrete path",
)

GOOD_COND = {"value.equal_to": ...}
BAD_RULES = [
    ({"condition": GOOD_COND}, "KeyError"), ({"path": ["a"]}, "KeyError"),
    ({"path": ["a"], "condition": GOOD_COND, "cast": {"str": "nonsense"}}, None),
    ({"path": ["a"], "condition": GOOD_COND, "cast": {"float": "int"}}, None),
    ({"path": ["a"], "condition": GOOD_COND, "cast": {"bool": "str"}}, None),
    ({"path": ["a"], "condition": GOOD_COND, "cast": ["str", "int"]}, None),
    ({"path": ["a"], "condition": GOOD_COND, "doc": {"description": 5}}, None),
    ({"path": ["a"], "condition": GOOD_COND, "doc": {"examples": [1, 2]}}, None),
    ({"path": ["a"], "condition": {"bad_key": ...}}, None),
    ({"path": [{"type": "bogus_value"}], "condition": GOOD_COND}, None),
]
contract(
    "valida.rules:Rule.from_spec#malformed",
    params=dict(cls=Const(__import__("valida.rules").rules.Rule)),
    variants=[dict(spec=SpecWith(t)) for t, _ in BAD_RULES],
    ensures=lambda spec: False,
    raises=dict(SPEC_ERRORS, KeyError=True),
    serves=["C19"],
    note="a missing mandatory field is a KeyError naming it (the statement allows exactly that); everything else a spec error",
)
