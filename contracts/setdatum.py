"""set_datum (C15, C08): after set_datum(data, keys, datum) the nested containers of `data` are, as a whole, what the
functional update Put(old data, keys, datum) gives - the node at `keys` is `datum`, every other entry of every container
on the way keeps its value and position, no entry is added along the way - for documents whose spine (a dict or a list
at every level of the path, with further entries beside it) is fixed per variant and whose keys, indices, leaves and
the datum are arbitrary; for the empty path nothing is written.  The spine is built from in-place containers, so the
stores of the real body are executed on them."""
from pyvc.contracts import contract, Shape, AnyVal, JsonVal
from pyvc.sym import LList, LDict, LTuple, C
from spec.prims import same
from contracts.specs import Scalar
from contracts.addschema import ApiPath
from pyvc.contracts import Str, Int


class Spine(Shape):
    """Nested containers along one path: kinds[i] in 'd' (a dict {k_i: next, k_i': leaf}) / 'l' (a list [leaf, next, leaf])."""

    def __init__(self, kinds):
        self.kinds = kinds

    def make(self, ip, name):
        import z3
        from pyvc import vals as V
        def level(i):
            nxt = level(i + 1) if i + 1 < len(self.kinds) else Scalar().make(ip, f"{name}_leaf")
            if self.kinds[i] == "d":
                k1, k2 = Str().make(ip, f"{name}_k{i}"), Str().make(ip, f"{name}_o{i}")
                ip.path.assume(ip.to_z(k1) != ip.to_z(k2))
                return LDict([(k1, nxt), (k2, Scalar().make(ip, f"{name}_x{i}"))], fresh=False)
            return LList([Scalar().make(ip, f"{name}_a{i}"), nxt, Scalar().make(ip, f"{name}_b{i}")], fresh=False)
        return level(0)


class Keys(Shape):
    """A tuple / list of n arbitrary scalar keys."""

    def __init__(self, n, as_list=False):
        self.n, self.as_list = n, as_list

    def make(self, ip, name):
        items = [Scalar().make(ip, f"{name}{i}") for i in range(self.n)]
        return LList(items, fresh=False) if self.as_list else LTuple(items)


def Put(d, keys, v):
    """The functional update: d with the node at keys replaced by v (containers on the way rebuilt, others shared)."""
    k = keys[0]
    new = v if len(keys) == 1 else Put(d[k], keys[1:], v)
    if isinstance(d, dict):
        out = dict(d)
        out[k] = new
        return out
    out = list(d)
    out[k] = new
    return out


def Exists(d, keys):
    """The path is there: every key / index on it addresses an existing entry (the nodes Rule.test writes to were selected
    from the document, so they exist; what set_datum does for a key that is not there is not part of C15)."""
    for i, k in enumerate(keys):
        if isinstance(d, dict):
            if k not in d:
                return False
        elif isinstance(d, list):
            if isinstance(k, bool) or not isinstance(k, int) or not -len(d) <= k < len(d):
                return False
        else:
            return False
        if i < len(keys) - 1:
            d = d[k]
    return True


SPINES = ["d", "l", "dd", "dl", "ld", "ll", "dld", "ldl"]

contract(
    "valida.data:set_datum",
    params=dict(datum=JsonVal()),
    variants=[dict(data=Spine(k), data_path=Keys(len(k), as_list=(j % 2 == 1))) for j, k in enumerate(SPINES)]
             + [dict(data=Spine(k), data_path=Keys(0)) for k in ("d", "l")],
    modifies=["data"],
    requires=lambda data, data_path: len(data_path) == 0 or Exists(data, data_path),
    ensures=lambda data, data_path, datum, old, result:
        result is None and same(data, Put(old["data"], tuple(data_path), datum) if len(data_path) else old["data"]),
    raises={},
    serves=["C15"],
)

contract(
    "valida.data:set_datum#datapath",
    params=dict(datum=JsonVal()),
    variants=[dict(data=Spine("d"), data_path=ApiPath([Str()])), dict(data=Spine("dl"), data_path=ApiPath([Str(), Int()])),
              dict(data=Spine("ld"), data_path=ApiPath([Int(), Str()]))],
    modifies=["data"],
    requires=lambda data, data_path: Exists(data, data_path.simplify()),
    ensures=lambda data, data_path, datum, old, result:
        result is None and same(data, Put(old["data"], data_path.simplify(), datum)),
    raises={},
    serves=["C15"],
    note="the path given as a concrete DataPath of primitive parts",
)
