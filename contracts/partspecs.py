"""Family contract of the path-part spec parser (C10): for every part type (map_value / list_value / map_or_list_value /
none given), and every way of giving its pieces - long forms (`key`, `index`, `value`, `condition` holding a condition
spec), dotted shorthands (`key.equal_to: x`, `index.greater_than: x`, `value.less_than: x`), a label, and pairs of them -
`ContainerValue.from_spec(spec)` equals (part equality, C14) the part built through the keyword API from the same pieces,
for arbitrary scalar arguments.  Loop-free bodies over symbolic scalars; the nested condition specs are parsed by
executing ConditionLike.from_spec's body (its own family contract is contracts/specs.py)."""
from pyvc.contracts import contract, Const, Shape
from pyvc.sym import LDict, C
import valida.conditions as cnds
from valida.datapath import ContainerValue, MapValue, ListValue, MapOrListValue
from contracts.specs import Scalar


class PartSpec(Shape):
    """{'type': t, <piece key>: <piece value>...} with a symbolic scalar inside every piece."""

    def __init__(self, ptype, pieces):
        self.ptype, self.pieces = ptype, pieces

    def make(self, ip, name):
        pairs = []
        if self.ptype is not None:
            pairs.append((C("type"), C(self.ptype)))
        for i, (k, form) in enumerate(self.pieces):
            s = Scalar().make(ip, f"arg{i}")
            if form == "label":
                pairs.append((C("label"), s))
            elif form[0] == "long":        # key: {key.equal_to: s}
                pairs.append((C(k), LDict([(C(form[1]), s)], fresh=False)))
            else:                          # shorthand  key.equal_to: s
                pairs.append((C(form[1]), s))
        return LDict(pairs, fresh=False)


PIECES = {
    "key": [("key", ("long", "key.equal_to")), ("key", ("short", "key.equal_to")), ("key", ("short", "key.in")), ("key", ("long", "key.length.less_than")),
            ("condition", ("long", "key.in"))],          # the generic `condition` long form may hold a key / index condition too
    "index": [("index", ("long", "index.equal_to")), ("index", ("short", "index.greater_than")), ("condition", ("long", "index.less_than"))],
    "value": [("value", ("long", "value.less_than")), ("value", ("short", "value.equal_to")), ("value", ("short", "value.length.equal_to")),
              ("condition", ("long", "value.greater_than"))],
    "label": [("label", "label")],
}
ALLOWED = {"map_value": ["key", "value", "label"], "list_value": ["index", "value", "label"],
           "map_or_list_value": ["key", "index", "value", "label"], None: ["key", "index", "value", "label"]}


def family():
    out = []
    for ptype, kinds in ALLOWED.items():
        out.append((ptype, []))
        singles = [p for k in kinds for p in PIECES[k]]
        for p in singles:
            out.append((ptype, [p]))
        for i, a in enumerate(singles):
            for b in singles[i + 1:]:
                ka = [k for k in kinds if a in PIECES[k]][0]
                kb = [k for k in kinds if b in PIECES[k]][0]
                if ka != kb and a[0] != b[0] and (a[1][0] == "long" or b[1][0] == "long" or "label" in (a[1], b[1])):
                    out.append((ptype, [a, b]))
    return out


FAMILY = family()


def _cond(piece_key, form, arg):
    """The condition object a piece stands for."""
    name = form[1]
    toks = name.split(".")
    cls = {"key": cnds.Key, "index": cnds.Index, "value": cnds.Value}[toks[0]]
    if len(toks) == 3:
        cls = getattr(cls, {"length": "length", "len": "length", "dtype": "dtype", "type": "dtype"}[toks[1]])
    m = {"in": "in_"}.get(toks[-1], toks[-1])
    return getattr(cls, m)(arg)


def Expected(spec, ptype, pieces):
    """The part built through the keyword API from the same pieces."""
    vals = [v for k, v in spec.items() if k != "type"]
    kw = {}
    for (k, form), v in zip(pieces, vals):
        if form == "label":
            kw["label"] = v
        else:
            arg = next(iter(v.values())) if form[0] == "long" else v
            c = _cond(k, form, arg)
            if k in kw:
                kw[k] = kw[k] & c
            else:
                kw[k] = c
    cls = {"map_value": MapValue, "list_value": ListValue, "map_or_list_value": MapOrListValue, None: MapOrListValue}[ptype]
    return cls(**kw)


contract(
    "valida.datapath:ContainerValue.from_spec",
    variants=[dict(spec=PartSpec(pt, ps), _ptype=Const(pt), _pieces=Const(tuple(ps))) for pt, ps in FAMILY],
    ensures=lambda spec, result, _ptype, _pieces:
        result == Expected(spec, _ptype, _pieces),
    raises={},
    serves=["C10", "C16"],
    inline_at_calls=True,
)
