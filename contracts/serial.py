"""Family contracts of condition serialisation (C11): for every leaf of the DSL fragment of C11 (all callables on
value / key / index, length x numeric comparisons, type x equality / membership; JSON-like scalar or type arguments;
var-positional argument lists of 0..3 items; constant literal mappings whose keys look like path specs),
    js = c.to_json_like()   is JSON-compatible data,
    ConditionLike.from_spec(js)  is structurally identical to c,   and   from_spec(js).to_json_like() = js.
The leaf c is built by running the real DSL constructor symbolically; from_spec is executed on the serialised value
(its body, not a summary), so the round trip is one obligation over both functions' real code."""
from pyvc.contracts import contract, AnyVal, Const, Shape
from pyvc.sym import LTuple, C
from spec.prims import same, IsJson
import valida.conditions as cnds
from contracts.specs import CLASSES, Scalar
from vf.oracle import CLS_CALLABLES, SIG

NUMERIC_CMP = ["equal_to", "not_equal_to", "less_than", "greater_than", "less_than_or_equal_to", "greater_than_or_equal_to"]


class DslLeaf(Shape):
    """The object the real DSL constructor returns for symbolic arguments of the given shapes."""

    def __init__(self, cls, m, args=(), kwargs=None):
        self.cls, self.m, self.args, self.kwargs = cls, m, args, kwargs or {}

    def make(self, ip, name):
        args = [a.make(ip, f"a{i}") if isinstance(a, Shape) else ip.wrap(a) for i, a in enumerate(self.args)]
        kwargs = {k: (a.make(ip, k) if isinstance(a, Shape) else ip.wrap(a)) for k, a in self.kwargs.items()}
        obj = ip.call(ip.get_attr(C(self.cls), self.m), args, kwargs)
        obj.fresh = False                 # from the serialiser's point of view the condition existed before the call
        obj.attrs["callable"].fresh = False
        return obj


def leaves():
    out = []
    for cname, cls in CLASSES.items():
        for m in CLS_CALLABLES[cname]:
            kind, names = SIG[m]
            if cname.endswith("Length") and m not in NUMERIC_CMP + ["in_range", "not_in_range"]:
                continue
            if cname.endswith("DataType"):
                if m in ("equal_to", "not_equal_to"):
                    out += [DslLeaf(cls, m, [Const(t)]) for t in (int, str, dict)]
                elif m in ("in_", "not_in"):
                    out += [DslLeaf(cls, m, [Const([int, str])]), DslLeaf(cls, m, [Const([bool])])]
                continue
            if m in ("is_instance", "keys_is_instance"):
                out += [DslLeaf(cls, m, [Const(int)]), DslLeaf(cls, m, [Const(str), Const(float)])]
            elif kind == "none":
                out.append(DslLeaf(cls, m))
            elif kind == "pk":
                out.append(DslLeaf(cls, m, [Scalar() for _ in names]))
                if m == "equal_to_approx":
                    out.append(DslLeaf(cls, m, [Scalar()]))
            elif kind == "var":
                out += [DslLeaf(cls, m, [Scalar() for _ in range(n)]) for n in (0, 1, 3)]
            elif kind == "kw":
                out += [DslLeaf(cls, m, [], {k: Scalar() for k in ks}) for ks in ((), ("a",), ("a", "b"))]
    return out


def pathlike_leaves():
    """Literal mappings (and lists of them) whose keys look like data path specs: they are escaped by the serialiser and
    read back as the literal, not as a path."""
    V = cnds.Value
    lits = [{"path": ["a", 0]}, {"PATH.length": 1}, {"\\path": 1, "b": 2}, {"Path": "x", "b": 1}, {"my\\Path": None}]
    out = [DslLeaf(V, "equal_to", [Const(l)]) for l in lits]
    out += [DslLeaf(V, "in_", [Const([lits[0], 1])]), DslLeaf(V, "items_contain_any_of", [Const(lits[0]), Const(lits[2])]) if hasattr(V, "items_contain_any_of") else DslLeaf(V, "keys_contain_any_of", [Const("path"), Const("b")]),
            DslLeaf(V, "equal_to", [Const({"k": lits[0]})]),
            # two or more levels inside the argument: neither escaped nor un-escaped, so read back as written
            DslLeaf(V, "equal_to", [Const({"output": {"log": {"path": "/tmp/run.log"}}})]),
            DslLeaf(V, "in_", [Const([[{"path": ["a", 0]}], 3])]), DslLeaf(V, "equal_to", [Const([{"k": {"\\path": 1}}])])]
    return out


LEAVES = leaves() + pathlike_leaves()

contract(
    "valida.conditions:Condition.to_json_like",
    variants=[dict(self=l) for l in LEAVES],
    ensures=lambda self, result:
        IsJson(result)
        and same(cnds.ConditionLike.from_spec(result), self)
        and same(cnds.ConditionLike.from_spec(result).to_json_like(), result),
    raises={},
    inline_at_calls=True,        # callers (part / rule serialisation) run the serialiser's body on their own condition
    serves=["C11", "C13"],
)


class DslTree(Shape):
    """A combination built by the real operators from DSL leaves: (op, left, right) with op in '&|^'."""

    def __init__(self, op, left, right):
        self.op, self.left, self.right = op, left, right

    def make(self, ip, name):
        a = self.left.make(ip, name + "l")
        b = self.right.make(ip, name + "r")
        meth = {"&": "__and__", "|": "__or__", "^": "__xor__"}[self.op]
        obj = ip.call(ip.get_attr(a, meth), [b], {})
        obj.fresh = False
        return obj


def trees():
    V, K, I = cnds.Value, cnds.Key, cnds.Index
    l = [DslLeaf(V, "less_than", [Scalar()]), DslLeaf(cnds.ValueLength, "equal_to", [Scalar()]),
         DslLeaf(K, "equal_to", [Scalar()]), DslLeaf(I, "greater_than", [Scalar()]), DslLeaf(cnds.ValueDataType, "equal_to", [Const(int)]),
         DslLeaf(V, "keys_contain_any_of", [Scalar(), Scalar()])]
    out = []
    for op in "&|^":
        out += [DslTree(op, l[0], l[1]), DslTree(op, l[2], l[0]), DslTree(op, l[4], l[3])]
        for op2 in "&|^":
            out.append(DslTree(op, DslTree(op2, l[0], l[1]), l[5]))        # (a . b) . c
            out.append(DslTree(op, l[0], DslTree(op2, l[1], l[5])))        # a . (b . c)
            out.append(DslTree(op, DslTree(op2, l[2], l[0]), DslTree(op, l[1], l[4])))
    return out


contract(
    "valida.conditions:ConditionBinaryOp.to_json_like",
    variants=[dict(self=t) for t in trees()],
    ensures=lambda self, result:
        IsJson(result)
        and same(cnds.ConditionLike.from_spec(result), self)
        and same(cnds.ConditionLike.from_spec(result).to_json_like(), result),
    raises={},
    inline_at_calls=True,
    serves=["C11", "C12", "C13"],
    note="combinations of two and three leaves, nested on either side, every pair of operators: the serialised form is "
         "parsed back (by from_spec's own body) to a structurally identical tree and serialises to the same data again",
)
