"""Path resolution (C03 / C04 / the selection half of C05): DataPath.get_data against the part-by-part walk of
spec/walk.py.  The walk is stated over what one part matches in one node (PartApplies / PartVals / PartKeys, the
interface contract of the parts' `filter`); what is proved here, for paths of any length and frontiers of any size, is
the frontier expansion in document order, the lock-step alignment of the concrete paths with the selected nodes, the
skipping of nodes a part does not apply to, and the final shaping by the datum / multiplicity modifiers."""
from pyvc.contracts import contract, interface, AnyVal, JsonVal, Obj, Const, TupleOf, Bool, ListOf
from spec.prims import same, all_lists, PartApplies, PartVals, PartKeys
from spec.walk import FlatVals, FlatPaths, FrontVals, FrontPaths, Resolved
from valida.datapath import DataPath, DataPathDatumType as DT, DataPathMultiType as MT


class _Match:
    """Abstract result of part.filter(node): the matched children and their keys (FilteredDataLike.data / .keys)."""


interface(
    "part.filter",
    param_names=[("self", None), ("data", None)],
    returns=Obj(_Match, fresh=True, data=ListOf(), keys=ListOf()),
    ensures=lambda self, data, result:
        same(result.data, PartVals(self, data)) and same(result.keys, PartKeys(self, data))
        and len(result.keys) == len(result.data),
    raises={"TypeError": lambda self, data: not PartApplies(self, data)},
    assumed=True,
    note="MapValue / ListValue / MapOrListValue.filter: TypeError exactly when the part does not apply; .data and .keys of "
         "the filtered view are aligned (same result mask over the source's values / keys)",
)


def _witnesses(consts):
    """Concrete (path, document) pairs for replay: counter-models over the uninterpreted part semantics cannot be rebuilt."""
    from valida.datapath import MapValue, ListValue, MapOrListValue
    from valida.conditions import Value, Key, Index
    dt, mt = consts["_dt"], consts["_mt"]
    docs = [
        {"a": 1, "b": {"x": 2, "y": [3, 4]}, "c": {"x": 5}},
        {"a": 0, "b": {"x": 1}, "c": [1, 2], "d": {"x": 2, "z": 3}},
        [1, [2, 3], {"k": [4, 5]}, [6], "s", [[7], [8, 9]]],
        {"p": [10, 20, 30], "q": [], "r": {}, "s": [40]},
        {1: {"x": [1, 2]}, "1": {"x": [3]}, None: {"x": [4, 5]}},
        [[1, 2, 3]], {"only": {"k": "v"}},
    ]
    part_lists = [
        (), ("a",), ("b", "x"), ("b", "y", 1), (0,), (-1,), (1, -1), (2, "k", 0), ("zz",), (5, 1, 0),
        (MapValue(),), (ListValue(),), (MapOrListValue(),), (MapValue(), "x"), (MapValue(), MapValue()), (ListValue(), ListValue()),
        (MapValue(), ListValue()), (MapOrListValue(), MapOrListValue()), (MapOrListValue(), MapOrListValue(), MapOrListValue()),
        ("p", ListValue()), (MapValue(), ListValue(), ), (MapValue(value=Value.dtype.equal_to(dict)), MapValue()),
        (ListValue(index=Index.gt(0)), ListValue()), (MapValue(key=Key.in_(["b", "c", "d"])), "x"),
    ]
    out = []
    for parts in part_lists:
        try:
            p = DataPath(*parts, datum_type=dt.value, multi_type=mt.value)
        except Exception:
            continue
        for d in docs:
            for rp in (False, True):
                out.append(dict(self=p, data=d, return_paths=rp))
    return out


def PathShape(dt, mt):
    return Obj(DataPath, parts=TupleOf(), is_concrete=Bool(), source_data=Const(None), _DATUM_TYPE=Const(dt), _MULTI_TYPE=Const(mt))


contract(
    "valida.datapath:DataPath.get_data",
    params=dict(data=JsonVal(), return_paths=Bool()),
    variants=[dict(self=PathShape(dt, mt), _dt=Const(dt), _mt=Const(mt)) for dt in DT for mt in MT],
    uses_interfaces={"filter": "part.filter"},
    requires=lambda self, _mt: not (self.is_concrete and _mt.value) and (len(self.parts) > 0 or self.is_concrete),
    invariants={
        "for (part_idx, part) in enumerate(self.parts)":
            lambda k, xs, old_data, data, concrete_paths:
                same(data, FrontVals(xs, old_data, k))
                and same(concrete_paths, FrontPaths(xs, old_data, k))
                and (k == 0 or len(concrete_paths) == len(data))
                and all_lists(concrete_paths),
        "for (datum_idx, datum) in enumerate(data)":
            lambda k, xs, part, part_idx, concrete_paths, new_data, new_concrete_paths:
                same(new_data, FlatVals(part, xs, k))
                and same(new_concrete_paths, FlatPaths(part, xs, concrete_paths, part_idx == 0, k))
                and len(new_concrete_paths) == len(new_data)
                and all_lists(new_concrete_paths),
    },
    ensures=lambda self, data, return_paths, result, _dt, _mt:
        same(result, Resolved(self.parts, self.is_concrete, _dt, _mt, data, return_paths)),
    raises={"ValueError": lambda self, data, _mt:
            (not data) or (_mt is MT.SINGLE and len(FrontVals(self.parts, data, len(self.parts))) > 1),
            # a datum modifier that is not defined on a selected node (len of a number, keys of a list): outside the property
            "TypeError": True, "AttributeError": True},
    witnesses=_witnesses,
    serves=["C03", "C04", "C05"],
)
