"""Contracts of the __eq__ methods (C14): equality is *exactly* "same exact class and equal on every behaviour-relevant
component" (EqSpec).  The components are stated here from the property (a key, an index, an argument, a callable, a
part kind, a label, a cast, a modifier must all matter), not read off the code; a component dropped from a comparison,
`type(..) is` weakened to isinstance, or the commutative clause broken all fail these obligations.  Reflexivity,
symmetry and transitivity of EqSpec follow from those of == on the components (DESIGN §8 C14)."""
from pyvc.contracts import contract, AnyVal, Obj, OneOf, TupleOf, DictVal, Const, FuncVal, Bool
from spec.prims import same
import valida.conditions as cnds
import valida.datapath as dp
import valida.rules
import valida.schema
from contracts.callables import CALLABLE_NAMES

LEAF = [cnds.Value, cnds.ValueLength, cnds.ValueDataType, cnds.Key, cnds.KeyLength, cnds.KeyDataType, cnds.Index]
BINOPS = [cnds.ConditionAnd, cnds.ConditionOr, cnds.ConditionXor]


def Leaf(cls):
    return Obj(cls, callable=Obj("valida.conditions:PreparedConditionCallable", _func=FuncVal(CALLABLE_NAMES), _args=TupleOf(),
                                 _kwargs=DictVal()))


def Bin(cls):
    return Obj(cls, children=TupleOf2())


class TupleOf2(TupleOf):
    """A pair of arbitrary (opaque) operands."""

    def make(self, ip, name):
        from pyvc.sym import LTuple
        return LTuple([AnyVal().make(ip, name + "_0"), AnyVal().make(ip, name + "_1")])


contract(
    "valida.conditions:Condition.__eq__",
    variants=[dict(self=Leaf(a), other=Leaf(b)) for a in LEAF for b in (a, LEAF[(LEAF.index(a) + 1) % len(LEAF)])]
,
    ensures=lambda self, other, result:
        same(result, type(other) is type(self)
             and self.callable.func.__name__ == other.callable.func.__name__
             and self.callable.args == other.callable.args
             and self.callable.kwargs == other.callable.kwargs),
    raises_any=True,
    inline_at_calls=True,        # callers compare through the real body; these summaries are proved on their own
    serves=["C14"],
)

contract(
    "valida.conditions:ConditionBinaryOp.__eq__",
    variants=[dict(self=Bin(a), other=Bin(b)) for a in BINOPS for b in BINOPS] + [dict(self=Bin(cnds.ConditionAnd), other=Leaf(cnds.Value))],
    ensures=lambda self, other, result:
        same(result, type(self) is type(other)
             and ((self.children[0] == other.children[0] and self.children[1] == other.children[1])
                  or (self.children[0] == other.children[1] and self.children[1] == other.children[0]))),
    raises_any=True,
    inline_at_calls=True,        # callers compare through the real body; these summaries are proved on their own
    serves=["C14"],
)

PARTS = [dp.MapValue, dp.ListValue]
contract(
    "valida.datapath:ContainerValue.__eq__",
    variants=[dict(self=Obj(a, condition=AnyVal(), label=AnyVal()), other=Obj(b, condition=AnyVal(), label=AnyVal()))
              for a in PARTS for b in PARTS],
    ensures=lambda self, other, result:
        same(result, type(self) == type(other) and self.condition == other.condition and self.label == other.label),
    raises_any=True,
    inline_at_calls=True,        # callers compare through the real body; these summaries are proved on their own
    serves=["C14"],
)

contract(
    "valida.datapath:MapOrListValue.__eq__",
    variants=[dict(self=Obj(dp.MapOrListValue, condition=AnyVal(), list_condition=AnyVal(), map_condition=AnyVal(), label=AnyVal()),
                   other=o)
              for o in (Obj(dp.MapOrListValue, condition=AnyVal(), list_condition=AnyVal(), map_condition=AnyVal(), label=AnyVal()),
                        Obj(dp.MapValue, condition=AnyVal(), label=AnyVal()))],
    ensures=lambda self, other, result:
        same(result, type(self) == type(other) and self.condition == other.condition and self.label == other.label
             and self.list_condition == other.list_condition and self.map_condition == other.map_condition),
    raises_any=True,
    inline_at_calls=True,        # callers compare through the real body; these summaries are proved on their own
    serves=["C14"],
)


def PathShape():
    return Obj(dp.DataPath, parts=AnyVal(), is_concrete=Bool(), source_data=AnyVal(), _DATUM_TYPE=AnyVal(), _MULTI_TYPE=AnyVal())


contract(
    "valida.datapath:DataPath.__eq__",
    variants=[dict(self=PathShape(), other=PathShape()), dict(self=PathShape(), other=AnyVal())],
    ensures=lambda self, other, result:
        same(result, type(self) == type(other) and self.parts == other.parts and self.is_concrete == other.is_concrete
             and self.DATUM_TYPE == other.DATUM_TYPE and self.MULTI_TYPE == other.MULTI_TYPE
             and self.source_data == other.source_data),
    raises_any=True,
    inline_at_calls=True,        # callers compare through the real body; these summaries are proved on their own
    serves=["C14"],
)


def RuleShape():
    return Obj(valida.rules.Rule, path=AnyVal(), condition=AnyVal(), cast=AnyVal(), doc=AnyVal())


contract(
    "valida.rules:Rule.__eq__",
    variants=[dict(self=RuleShape(), other=RuleShape()), dict(self=RuleShape(), other=AnyVal())],
    ensures=lambda self, other, result:
        same(result, type(other) == type(self) and other.path == self.path and other.condition == self.condition
             and other.cast == self.cast),
    raises_any=True,
    inline_at_calls=True,        # callers compare through the real body; these summaries are proved on their own
    serves=["C14"],
)


def SchemaShape():
    return Obj(valida.schema.Schema, rules=AnyVal(), rule_tests=AnyVal())


contract(
    "valida.schema:Schema.__eq__",
    variants=[dict(self=SchemaShape(), other=SchemaShape()), dict(self=SchemaShape(), other=AnyVal())],
    ensures=lambda self, other, result:
        same(result, type(self) == type(other) and self.rules == other.rules and self.rule_tests == other.rule_tests),
    raises_any=True,
    inline_at_calls=True,        # callers compare through the real body; these summaries are proved on their own
    serves=["C14"],
)

contract(
    "valida.conditions:Condition._members",
    variants=[dict(self=Leaf(a)) for a in LEAF],
    ensures=lambda self, result:
        same(result, (self.callable.func.__name__, self.callable.args, self.callable.kwargs)),
    raises={},
    serves=["C14"],
    inline_at_calls=True,       # callers compare the components one by one: they see the body, not this summary
)
