"""Contracts of the DSL constructors (GeneralCallables / MapCallables classmethods), generated from the documented
signatures: each returns a fresh leaf condition of exactly the class it was called on, whose prepared callable is the
documented comparison with the arguments stored so that they bind to that comparison's parameters (WellBound).
serves: C01 (argument binding), C09/C11 (what specs and serialisation must reproduce), C14."""
from pyvc.contracts import contract, AnyVal, TupleOf, DictVal, Const
from spec.prims import same, is_fresh, Binds
import valida.callables as call_funcs
import valida.conditions as cnds

GENERAL_CLASSES = [cnds.Value, cnds.ValueLength, cnds.ValueDataType, cnds.Key, cnds.KeyLength, cnds.KeyDataType, cnds.Index]
MAP_CLASSES = [cnds.Value, cnds.Key]


contract(
    "valida.conditions:GeneralCallables.equal_to",
    params=dict(value=AnyVal()),
    variants=[dict(cls=Const(c)) for c in GENERAL_CLASSES],
    ensures=lambda cls, value, result:
        type(result) is cls and is_fresh(result) and result.callable.func is call_funcs.equal_to
        and same(result.callable.args, tuple(())) and same(result.callable.kwargs, dict({"value": value})),
    serves=["C09", "C11", "C14"],
    inline_at_calls=True,
)

contract(
    "valida.conditions:GeneralCallables.not_equal_to",
    params=dict(value=AnyVal()),
    variants=[dict(cls=Const(c)) for c in GENERAL_CLASSES],
    ensures=lambda cls, value, result:
        type(result) is cls and is_fresh(result) and result.callable.func is call_funcs.not_equal_to
        and same(result.callable.args, tuple(())) and same(result.callable.kwargs, dict({"value": value})),
    serves=["C09", "C11", "C14"],
    inline_at_calls=True,
)

contract(
    "valida.conditions:GeneralCallables.less_than",
    params=dict(value=AnyVal()),
    variants=[dict(cls=Const(c)) for c in GENERAL_CLASSES],
    ensures=lambda cls, value, result:
        type(result) is cls and is_fresh(result) and result.callable.func is call_funcs.less_than
        and same(result.callable.args, tuple(())) and same(result.callable.kwargs, dict({"value": value})),
    serves=["C09", "C11", "C14"],
    inline_at_calls=True,
)

contract(
    "valida.conditions:GeneralCallables.greater_than",
    params=dict(value=AnyVal()),
    variants=[dict(cls=Const(c)) for c in GENERAL_CLASSES],
    ensures=lambda cls, value, result:
        type(result) is cls and is_fresh(result) and result.callable.func is call_funcs.greater_than
        and same(result.callable.args, tuple(())) and same(result.callable.kwargs, dict({"value": value})),
    serves=["C09", "C11", "C14"],
    inline_at_calls=True,
)

contract(
    "valida.conditions:GeneralCallables.less_than_or_equal_to",
    params=dict(value=AnyVal()),
    variants=[dict(cls=Const(c)) for c in GENERAL_CLASSES],
    ensures=lambda cls, value, result:
        type(result) is cls and is_fresh(result) and result.callable.func is call_funcs.less_than_or_equal_to
        and same(result.callable.args, tuple(())) and same(result.callable.kwargs, dict({"value": value})),
    serves=["C09", "C11", "C14"],
    inline_at_calls=True,
)

contract(
    "valida.conditions:GeneralCallables.greater_than_or_equal_to",
    params=dict(value=AnyVal()),
    variants=[dict(cls=Const(c)) for c in GENERAL_CLASSES],
    ensures=lambda cls, value, result:
        type(result) is cls and is_fresh(result) and result.callable.func is call_funcs.greater_than_or_equal_to
        and same(result.callable.args, tuple(())) and same(result.callable.kwargs, dict({"value": value})),
    serves=["C09", "C11", "C14"],
    inline_at_calls=True,
)

contract(
    "valida.conditions:GeneralCallables.in_",
    params=dict(value=AnyVal()),
    variants=[dict(cls=Const(c)) for c in GENERAL_CLASSES],
    ensures=lambda cls, value, result:
        type(result) is cls and is_fresh(result) and result.callable.func is call_funcs.in_
        and same(result.callable.args, tuple(())) and same(result.callable.kwargs, dict({"value": value})),
    serves=["C09", "C11", "C14"],
    inline_at_calls=True,
)

contract(
    "valida.conditions:GeneralCallables.not_in",
    params=dict(value=AnyVal()),
    variants=[dict(cls=Const(c)) for c in GENERAL_CLASSES],
    ensures=lambda cls, value, result:
        type(result) is cls and is_fresh(result) and result.callable.func is call_funcs.not_in
        and same(result.callable.args, tuple(())) and same(result.callable.kwargs, dict({"value": value})),
    serves=["C09", "C11", "C14"],
    inline_at_calls=True,
)

contract(
    "valida.conditions:GeneralCallables.in_range",
    params=dict(lower=AnyVal(), upper=AnyVal()),
    variants=[dict(cls=Const(c)) for c in GENERAL_CLASSES],
    ensures=lambda cls, lower, upper, result:
        type(result) is cls and is_fresh(result) and result.callable.func is call_funcs.in_range
        and same(result.callable.args, tuple(())) and same(result.callable.kwargs, dict({"lower": lower, "upper": upper})),
    serves=["C09", "C11", "C14"],
    inline_at_calls=True,
)

contract(
    "valida.conditions:GeneralCallables.not_in_range",
    params=dict(lower=AnyVal(), upper=AnyVal()),
    variants=[dict(cls=Const(c)) for c in GENERAL_CLASSES],
    ensures=lambda cls, lower, upper, result:
        type(result) is cls and is_fresh(result) and result.callable.func is call_funcs.not_in_range
        and same(result.callable.args, tuple(())) and same(result.callable.kwargs, dict({"lower": lower, "upper": upper})),
    serves=["C09", "C11", "C14"],
    inline_at_calls=True,
)

contract(
    "valida.conditions:GeneralCallables.equal_to_approx",
    params=dict(value=AnyVal(), tolerance=AnyVal()),
    variants=[dict(cls=Const(c)) for c in GENERAL_CLASSES],
    ensures=lambda cls, value, tolerance, result:
        type(result) is cls and is_fresh(result) and result.callable.func is call_funcs.equal_to_approx
        and same(result.callable.args, tuple(())) and same(result.callable.kwargs, dict({"value": value, "tolerance": tolerance})),
    serves=["C09", "C11", "C14"],
    inline_at_calls=True,
)

contract(
    "valida.conditions:GeneralCallables.factor_of",
    params=dict(value=AnyVal()),
    variants=[dict(cls=Const(c)) for c in GENERAL_CLASSES],
    ensures=lambda cls, value, result:
        type(result) is cls and is_fresh(result) and result.callable.func is call_funcs.factor_of
        and same(result.callable.args, tuple(())) and same(result.callable.kwargs, dict({"value": value})),
    serves=["C09", "C11", "C14"],
    inline_at_calls=True,
)

contract(
    "valida.conditions:GeneralCallables.has_factor",
    params=dict(value=AnyVal()),
    variants=[dict(cls=Const(c)) for c in GENERAL_CLASSES],
    ensures=lambda cls, value, result:
        type(result) is cls and is_fresh(result) and result.callable.func is call_funcs.has_factor
        and same(result.callable.args, tuple(())) and same(result.callable.kwargs, dict({"value": value})),
    serves=["C09", "C11", "C14"],
    inline_at_calls=True,
)

contract(
    "valida.conditions:GeneralCallables.truthy",
    params=dict(),
    variants=[dict(cls=Const(c)) for c in GENERAL_CLASSES],
    ensures=lambda cls, result:
        type(result) is cls and is_fresh(result) and result.callable.func is call_funcs.truthy
        and same(result.callable.args, tuple(())) and same(result.callable.kwargs, dict({})),
    serves=["C09", "C11", "C14"],
    inline_at_calls=True,
)

contract(
    "valida.conditions:GeneralCallables.falsy",
    params=dict(),
    variants=[dict(cls=Const(c)) for c in GENERAL_CLASSES],
    ensures=lambda cls, result:
        type(result) is cls and is_fresh(result) and result.callable.func is call_funcs.falsy
        and same(result.callable.args, tuple(())) and same(result.callable.kwargs, dict({})),
    serves=["C09", "C11", "C14"],
    inline_at_calls=True,
)

contract(
    "valida.conditions:GeneralCallables.null",
    params=dict(),
    variants=[dict(cls=Const(c)) for c in GENERAL_CLASSES],
    ensures=lambda cls, result:
        type(result) is cls and is_fresh(result) and result.callable.func is call_funcs.null
        and same(result.callable.args, tuple(())) and same(result.callable.kwargs, dict({})),
    serves=["C09", "C11", "C14"],
    inline_at_calls=True,
)

contract(
    "valida.conditions:GeneralCallables.is_instance",
    params=dict(classes=TupleOf()),
    variants=[dict(cls=Const(c)) for c in GENERAL_CLASSES],
    ensures=lambda cls, classes, result:
        type(result) is cls and is_fresh(result) and result.callable.func is call_funcs.is_instance
        and same(result.callable.args, tuple(classes)) and same(result.callable.kwargs, dict({})),
    serves=["C09", "C11", "C14"],
    inline_at_calls=True,
)

contract(
    "valida.conditions:MapCallables.keys_contain",
    params=dict(key=AnyVal()),
    variants=[dict(cls=Const(c)) for c in MAP_CLASSES],
    ensures=lambda cls, key, result:
        type(result) is cls and is_fresh(result) and result.callable.func is call_funcs.keys_contain
        and same(result.callable.args, tuple(())) and same(result.callable.kwargs, dict({"key": key})),
    serves=["C09", "C11", "C14"],
    inline_at_calls=True,
)

contract(
    "valida.conditions:MapCallables.keys_contain_any_of",
    params=dict(keys=TupleOf()),
    variants=[dict(cls=Const(c)) for c in MAP_CLASSES],
    ensures=lambda cls, keys, result:
        type(result) is cls and is_fresh(result) and result.callable.func is call_funcs.keys_contain_any_of
        and same(result.callable.args, tuple(keys)) and same(result.callable.kwargs, dict({})),
    serves=["C09", "C11", "C14"],
    inline_at_calls=True,
)

contract(
    "valida.conditions:MapCallables.keys_contain_all_of",
    params=dict(keys=TupleOf()),
    variants=[dict(cls=Const(c)) for c in MAP_CLASSES],
    ensures=lambda cls, keys, result:
        type(result) is cls and is_fresh(result) and result.callable.func is call_funcs.keys_contain_all_of
        and same(result.callable.args, tuple(keys)) and same(result.callable.kwargs, dict({})),
    serves=["C09", "C11", "C14"],
    inline_at_calls=True,
)

contract(
    "valida.conditions:MapCallables.keys_contain_N_of",
    params=dict(N=AnyVal(), keys=AnyVal()),
    variants=[dict(cls=Const(c)) for c in MAP_CLASSES],
    ensures=lambda cls, N, keys, result:
        type(result) is cls and is_fresh(result) and result.callable.func is call_funcs.keys_contain_N_of
        and same(result.callable.args, tuple(())) and same(result.callable.kwargs, dict({"N": N, "keys": keys})),
    serves=["C09", "C11", "C14"],
    inline_at_calls=True,
)

contract(
    "valida.conditions:MapCallables.keys_contain_at_least_N_of",
    params=dict(N=AnyVal(), keys=AnyVal()),
    variants=[dict(cls=Const(c)) for c in MAP_CLASSES],
    ensures=lambda cls, N, keys, result:
        type(result) is cls and is_fresh(result) and result.callable.func is call_funcs.keys_contain_at_least_N_of
        and same(result.callable.args, tuple(())) and same(result.callable.kwargs, dict({"N": N, "keys": keys})),
    serves=["C09", "C11", "C14"],
    inline_at_calls=True,
)

contract(
    "valida.conditions:MapCallables.keys_contain_at_most_N_of",
    params=dict(N=AnyVal(), keys=AnyVal()),
    variants=[dict(cls=Const(c)) for c in MAP_CLASSES],
    ensures=lambda cls, N, keys, result:
        type(result) is cls and is_fresh(result) and result.callable.func is call_funcs.keys_contain_at_most_N_of
        and same(result.callable.args, tuple(())) and same(result.callable.kwargs, dict({"N": N, "keys": keys})),
    serves=["C09", "C11", "C14"],
    inline_at_calls=True,
)

contract(
    "valida.conditions:MapCallables.keys_contain_one_of",
    params=dict(keys=TupleOf()),
    variants=[dict(cls=Const(c)) for c in MAP_CLASSES],
    ensures=lambda cls, keys, result:
        type(result) is cls and is_fresh(result) and result.callable.func is call_funcs.keys_contain_one_of
        and same(result.callable.args, tuple(keys)) and same(result.callable.kwargs, dict({})),
    serves=["C09", "C11", "C14"],
    inline_at_calls=True,
)

contract(
    "valida.conditions:MapCallables.keys_contain_at_least_one_of",
    params=dict(keys=AnyVal()),
    variants=[dict(cls=Const(c)) for c in MAP_CLASSES],
    ensures=lambda cls, keys, result:
        type(result) is cls and is_fresh(result) and result.callable.func is call_funcs.keys_contain_at_least_one_of
        and same(result.callable.args, tuple(())) and same(result.callable.kwargs, dict({"keys": keys})),
    serves=["C09", "C11", "C14"],
    inline_at_calls=True,
)

contract(
    "valida.conditions:MapCallables.keys_contain_at_most_one_of",
    params=dict(keys=AnyVal()),
    variants=[dict(cls=Const(c)) for c in MAP_CLASSES],
    ensures=lambda cls, keys, result:
        type(result) is cls and is_fresh(result) and result.callable.func is call_funcs.keys_contain_at_most_one_of
        and same(result.callable.args, tuple(())) and same(result.callable.kwargs, dict({"keys": keys})),
    serves=["C09", "C11", "C14"],
    inline_at_calls=True,
)

contract(
    "valida.conditions:MapCallables.keys_equal_to",
    params=dict(keys=TupleOf()),
    variants=[dict(cls=Const(c)) for c in MAP_CLASSES],
    ensures=lambda cls, keys, result:
        type(result) is cls and is_fresh(result) and result.callable.func is call_funcs.keys_equal_to
        and same(result.callable.args, tuple(keys)) and same(result.callable.kwargs, dict({})),
    serves=["C09", "C11", "C14"],
    inline_at_calls=True,
)

contract(
    "valida.conditions:MapCallables.keys_is_instance",
    params=dict(classes=TupleOf()),
    variants=[dict(cls=Const(c)) for c in MAP_CLASSES],
    ensures=lambda cls, classes, result:
        type(result) is cls and is_fresh(result) and result.callable.func is call_funcs.keys_is_instance
        and same(result.callable.args, tuple(classes)) and same(result.callable.kwargs, dict({})),
    serves=["C09", "C11", "C14"],
    inline_at_calls=True,
)

contract(
    "valida.conditions:MapCallables.items_contain",
    params=dict(items=DictVal()),
    variants=[dict(cls=Const(c)) for c in MAP_CLASSES],
    ensures=lambda cls, items, result:
        type(result) is cls and is_fresh(result) and result.callable.func is call_funcs.items_contain
        and same(result.callable.args, tuple(())) and same(result.callable.kwargs, dict(items)),
    serves=["C09", "C11", "C14"],
    inline_at_calls=True,
)

contract(
    "valida.conditions:MapCallables.allowed_keys",
    params=dict(keys=TupleOf()),
    variants=[dict(cls=Const(c)) for c in MAP_CLASSES],
    ensures=lambda cls, keys, result:
        type(result) is cls and is_fresh(result) and result.callable.func is call_funcs.allowed_keys
        and same(result.callable.args, tuple(keys)) and same(result.callable.kwargs, dict({})),
    serves=["C09", "C11", "C14"],
    inline_at_calls=True,
)

contract(
    "valida.conditions:MapCallables.required_keys",
    params=dict(keys=TupleOf()),
    variants=[dict(cls=Const(c)) for c in MAP_CLASSES],
    ensures=lambda cls, keys, result:
        type(result) is cls and is_fresh(result) and result.callable.func is call_funcs.required_keys
        and same(result.callable.args, tuple(keys)) and same(result.callable.kwargs, dict({})),
    serves=["C09", "C11", "C14"],
    inline_at_calls=True,
)

contract(
    "valida.conditions:MapCallables.forbidden_keys",
    params=dict(keys=TupleOf()),
    variants=[dict(cls=Const(c)) for c in MAP_CLASSES],
    ensures=lambda cls, keys, result:
        type(result) is cls and is_fresh(result) and result.callable.func is call_funcs.forbidden_keys
        and same(result.callable.args, tuple(keys)) and same(result.callable.kwargs, dict({})),
    serves=["C09", "C11", "C14"],
    inline_at_calls=True,
)


# ---- WellBound: the stored arguments bind to the comparison's parameters after the datum (C01, C07)
contract(
    "valida.conditions:GeneralCallables.equal_to#wellbound",
    params=dict(value=AnyVal()),
    variants=[dict(cls=Const(c)) for c in GENERAL_CLASSES],
    ensures=lambda cls, value, result:
        type(result) is cls and is_fresh(result) and result.callable.func is call_funcs.equal_to
        and Binds(result.callable.func, result.callable.args, result.callable.kwargs),
    serves=["C01", "C07"],
    inline_at_calls=True,
)

contract(
    "valida.conditions:GeneralCallables.not_equal_to#wellbound",
    params=dict(value=AnyVal()),
    variants=[dict(cls=Const(c)) for c in GENERAL_CLASSES],
    ensures=lambda cls, value, result:
        type(result) is cls and is_fresh(result) and result.callable.func is call_funcs.not_equal_to
        and Binds(result.callable.func, result.callable.args, result.callable.kwargs),
    serves=["C01", "C07"],
    inline_at_calls=True,
)

contract(
    "valida.conditions:GeneralCallables.less_than#wellbound",
    params=dict(value=AnyVal()),
    variants=[dict(cls=Const(c)) for c in GENERAL_CLASSES],
    ensures=lambda cls, value, result:
        type(result) is cls and is_fresh(result) and result.callable.func is call_funcs.less_than
        and Binds(result.callable.func, result.callable.args, result.callable.kwargs),
    serves=["C01", "C07"],
    inline_at_calls=True,
)

contract(
    "valida.conditions:GeneralCallables.greater_than#wellbound",
    params=dict(value=AnyVal()),
    variants=[dict(cls=Const(c)) for c in GENERAL_CLASSES],
    ensures=lambda cls, value, result:
        type(result) is cls and is_fresh(result) and result.callable.func is call_funcs.greater_than
        and Binds(result.callable.func, result.callable.args, result.callable.kwargs),
    serves=["C01", "C07"],
    inline_at_calls=True,
)

contract(
    "valida.conditions:GeneralCallables.less_than_or_equal_to#wellbound",
    params=dict(value=AnyVal()),
    variants=[dict(cls=Const(c)) for c in GENERAL_CLASSES],
    ensures=lambda cls, value, result:
        type(result) is cls and is_fresh(result) and result.callable.func is call_funcs.less_than_or_equal_to
        and Binds(result.callable.func, result.callable.args, result.callable.kwargs),
    serves=["C01", "C07"],
    inline_at_calls=True,
)

contract(
    "valida.conditions:GeneralCallables.greater_than_or_equal_to#wellbound",
    params=dict(value=AnyVal()),
    variants=[dict(cls=Const(c)) for c in GENERAL_CLASSES],
    ensures=lambda cls, value, result:
        type(result) is cls and is_fresh(result) and result.callable.func is call_funcs.greater_than_or_equal_to
        and Binds(result.callable.func, result.callable.args, result.callable.kwargs),
    serves=["C01", "C07"],
    inline_at_calls=True,
)

contract(
    "valida.conditions:GeneralCallables.in_#wellbound",
    params=dict(value=AnyVal()),
    variants=[dict(cls=Const(c)) for c in GENERAL_CLASSES],
    ensures=lambda cls, value, result:
        type(result) is cls and is_fresh(result) and result.callable.func is call_funcs.in_
        and Binds(result.callable.func, result.callable.args, result.callable.kwargs),
    serves=["C01", "C07"],
    inline_at_calls=True,
)

contract(
    "valida.conditions:GeneralCallables.not_in#wellbound",
    params=dict(value=AnyVal()),
    variants=[dict(cls=Const(c)) for c in GENERAL_CLASSES],
    ensures=lambda cls, value, result:
        type(result) is cls and is_fresh(result) and result.callable.func is call_funcs.not_in
        and Binds(result.callable.func, result.callable.args, result.callable.kwargs),
    serves=["C01", "C07"],
    inline_at_calls=True,
)

contract(
    "valida.conditions:GeneralCallables.in_range#wellbound",
    params=dict(lower=AnyVal(), upper=AnyVal()),
    variants=[dict(cls=Const(c)) for c in GENERAL_CLASSES],
    ensures=lambda cls, lower, upper, result:
        type(result) is cls and is_fresh(result) and result.callable.func is call_funcs.in_range
        and Binds(result.callable.func, result.callable.args, result.callable.kwargs),
    serves=["C01", "C07"],
    inline_at_calls=True,
)

contract(
    "valida.conditions:GeneralCallables.not_in_range#wellbound",
    params=dict(lower=AnyVal(), upper=AnyVal()),
    variants=[dict(cls=Const(c)) for c in GENERAL_CLASSES],
    ensures=lambda cls, lower, upper, result:
        type(result) is cls and is_fresh(result) and result.callable.func is call_funcs.not_in_range
        and Binds(result.callable.func, result.callable.args, result.callable.kwargs),
    serves=["C01", "C07"],
    inline_at_calls=True,
)

contract(
    "valida.conditions:GeneralCallables.equal_to_approx#wellbound",
    params=dict(value=AnyVal(), tolerance=AnyVal()),
    variants=[dict(cls=Const(c)) for c in GENERAL_CLASSES],
    ensures=lambda cls, value, tolerance, result:
        type(result) is cls and is_fresh(result) and result.callable.func is call_funcs.equal_to_approx
        and Binds(result.callable.func, result.callable.args, result.callable.kwargs),
    serves=["C01", "C07"],
    inline_at_calls=True,
)

contract(
    "valida.conditions:GeneralCallables.factor_of#wellbound",
    params=dict(value=AnyVal()),
    variants=[dict(cls=Const(c)) for c in GENERAL_CLASSES],
    ensures=lambda cls, value, result:
        type(result) is cls and is_fresh(result) and result.callable.func is call_funcs.factor_of
        and Binds(result.callable.func, result.callable.args, result.callable.kwargs),
    serves=["C01", "C07"],
    inline_at_calls=True,
)

contract(
    "valida.conditions:GeneralCallables.has_factor#wellbound",
    params=dict(value=AnyVal()),
    variants=[dict(cls=Const(c)) for c in GENERAL_CLASSES],
    ensures=lambda cls, value, result:
        type(result) is cls and is_fresh(result) and result.callable.func is call_funcs.has_factor
        and Binds(result.callable.func, result.callable.args, result.callable.kwargs),
    serves=["C01", "C07"],
    inline_at_calls=True,
)

contract(
    "valida.conditions:GeneralCallables.truthy#wellbound",
    params=dict(),
    variants=[dict(cls=Const(c)) for c in GENERAL_CLASSES],
    ensures=lambda cls, result:
        type(result) is cls and is_fresh(result) and result.callable.func is call_funcs.truthy
        and Binds(result.callable.func, result.callable.args, result.callable.kwargs),
    serves=["C01", "C07"],
    inline_at_calls=True,
)

contract(
    "valida.conditions:GeneralCallables.falsy#wellbound",
    params=dict(),
    variants=[dict(cls=Const(c)) for c in GENERAL_CLASSES],
    ensures=lambda cls, result:
        type(result) is cls and is_fresh(result) and result.callable.func is call_funcs.falsy
        and Binds(result.callable.func, result.callable.args, result.callable.kwargs),
    serves=["C01", "C07"],
    inline_at_calls=True,
)

contract(
    "valida.conditions:GeneralCallables.null#wellbound",
    params=dict(),
    variants=[dict(cls=Const(c)) for c in GENERAL_CLASSES],
    ensures=lambda cls, result:
        type(result) is cls and is_fresh(result) and result.callable.func is call_funcs.null
        and Binds(result.callable.func, result.callable.args, result.callable.kwargs),
    serves=["C01", "C07"],
    inline_at_calls=True,
)

contract(
    "valida.conditions:GeneralCallables.is_instance#wellbound",
    params=dict(classes=TupleOf()),
    variants=[dict(cls=Const(c)) for c in GENERAL_CLASSES],
    ensures=lambda cls, classes, result:
        type(result) is cls and is_fresh(result) and result.callable.func is call_funcs.is_instance
        and Binds(result.callable.func, result.callable.args, result.callable.kwargs),
    serves=["C01", "C07"],
    inline_at_calls=True,
)

contract(
    "valida.conditions:MapCallables.keys_contain#wellbound",
    params=dict(key=AnyVal()),
    variants=[dict(cls=Const(c)) for c in MAP_CLASSES],
    ensures=lambda cls, key, result:
        type(result) is cls and is_fresh(result) and result.callable.func is call_funcs.keys_contain
        and Binds(result.callable.func, result.callable.args, result.callable.kwargs),
    serves=["C01", "C07"],
    inline_at_calls=True,
)

contract(
    "valida.conditions:MapCallables.keys_contain_any_of#wellbound",
    params=dict(keys=TupleOf()),
    variants=[dict(cls=Const(c)) for c in MAP_CLASSES],
    ensures=lambda cls, keys, result:
        type(result) is cls and is_fresh(result) and result.callable.func is call_funcs.keys_contain_any_of
        and Binds(result.callable.func, result.callable.args, result.callable.kwargs),
    serves=["C01", "C07"],
    inline_at_calls=True,
)

contract(
    "valida.conditions:MapCallables.keys_contain_all_of#wellbound",
    params=dict(keys=TupleOf()),
    variants=[dict(cls=Const(c)) for c in MAP_CLASSES],
    ensures=lambda cls, keys, result:
        type(result) is cls and is_fresh(result) and result.callable.func is call_funcs.keys_contain_all_of
        and Binds(result.callable.func, result.callable.args, result.callable.kwargs),
    serves=["C01", "C07"],
    inline_at_calls=True,
)

contract(
    "valida.conditions:MapCallables.keys_contain_N_of#wellbound",
    params=dict(N=AnyVal(), keys=AnyVal()),
    variants=[dict(cls=Const(c)) for c in MAP_CLASSES],
    ensures=lambda cls, N, keys, result:
        type(result) is cls and is_fresh(result) and result.callable.func is call_funcs.keys_contain_N_of
        and Binds(result.callable.func, result.callable.args, result.callable.kwargs),
    serves=["C01", "C07"],
    inline_at_calls=True,
)

contract(
    "valida.conditions:MapCallables.keys_contain_at_least_N_of#wellbound",
    params=dict(N=AnyVal(), keys=AnyVal()),
    variants=[dict(cls=Const(c)) for c in MAP_CLASSES],
    ensures=lambda cls, N, keys, result:
        type(result) is cls and is_fresh(result) and result.callable.func is call_funcs.keys_contain_at_least_N_of
        and Binds(result.callable.func, result.callable.args, result.callable.kwargs),
    serves=["C01", "C07"],
    inline_at_calls=True,
)

contract(
    "valida.conditions:MapCallables.keys_contain_at_most_N_of#wellbound",
    params=dict(N=AnyVal(), keys=AnyVal()),
    variants=[dict(cls=Const(c)) for c in MAP_CLASSES],
    ensures=lambda cls, N, keys, result:
        type(result) is cls and is_fresh(result) and result.callable.func is call_funcs.keys_contain_at_most_N_of
        and Binds(result.callable.func, result.callable.args, result.callable.kwargs),
    serves=["C01", "C07"],
    inline_at_calls=True,
)

contract(
    "valida.conditions:MapCallables.keys_contain_one_of#wellbound",
    params=dict(keys=TupleOf()),
    variants=[dict(cls=Const(c)) for c in MAP_CLASSES],
    ensures=lambda cls, keys, result:
        type(result) is cls and is_fresh(result) and result.callable.func is call_funcs.keys_contain_one_of
        and Binds(result.callable.func, result.callable.args, result.callable.kwargs),
    serves=["C01", "C07"],
    inline_at_calls=True,
)

contract(
    "valida.conditions:MapCallables.keys_contain_at_least_one_of#wellbound",
    params=dict(keys=AnyVal()),
    variants=[dict(cls=Const(c)) for c in MAP_CLASSES],
    ensures=lambda cls, keys, result:
        type(result) is cls and is_fresh(result) and result.callable.func is call_funcs.keys_contain_at_least_one_of
        and Binds(result.callable.func, result.callable.args, result.callable.kwargs),
    serves=["C01", "C07"],
    inline_at_calls=True,
)

contract(
    "valida.conditions:MapCallables.keys_contain_at_most_one_of#wellbound",
    params=dict(keys=AnyVal()),
    variants=[dict(cls=Const(c)) for c in MAP_CLASSES],
    ensures=lambda cls, keys, result:
        type(result) is cls and is_fresh(result) and result.callable.func is call_funcs.keys_contain_at_most_one_of
        and Binds(result.callable.func, result.callable.args, result.callable.kwargs),
    serves=["C01", "C07"],
    inline_at_calls=True,
)

contract(
    "valida.conditions:MapCallables.keys_equal_to#wellbound",
    params=dict(keys=TupleOf()),
    variants=[dict(cls=Const(c)) for c in MAP_CLASSES],
    ensures=lambda cls, keys, result:
        type(result) is cls and is_fresh(result) and result.callable.func is call_funcs.keys_equal_to
        and Binds(result.callable.func, result.callable.args, result.callable.kwargs),
    serves=["C01", "C07"],
    inline_at_calls=True,
)

contract(
    "valida.conditions:MapCallables.keys_is_instance#wellbound",
    params=dict(classes=TupleOf()),
    variants=[dict(cls=Const(c)) for c in MAP_CLASSES],
    ensures=lambda cls, classes, result:
        type(result) is cls and is_fresh(result) and result.callable.func is call_funcs.keys_is_instance
        and Binds(result.callable.func, result.callable.args, result.callable.kwargs),
    serves=["C01", "C07"],
    inline_at_calls=True,
)

contract(
    "valida.conditions:MapCallables.items_contain#wellbound",
    params=dict(items=DictVal()),
    variants=[dict(cls=Const(c)) for c in MAP_CLASSES],
    ensures=lambda cls, items, result:
        type(result) is cls and is_fresh(result) and result.callable.func is call_funcs.items_contain
        and Binds(result.callable.func, result.callable.args, result.callable.kwargs),
    serves=["C01", "C07"],
    inline_at_calls=True,
)

contract(
    "valida.conditions:MapCallables.allowed_keys#wellbound",
    params=dict(keys=TupleOf()),
    variants=[dict(cls=Const(c)) for c in MAP_CLASSES],
    ensures=lambda cls, keys, result:
        type(result) is cls and is_fresh(result) and result.callable.func is call_funcs.allowed_keys
        and Binds(result.callable.func, result.callable.args, result.callable.kwargs),
    serves=["C01", "C07"],
    inline_at_calls=True,
)

contract(
    "valida.conditions:MapCallables.required_keys#wellbound",
    params=dict(keys=TupleOf()),
    variants=[dict(cls=Const(c)) for c in MAP_CLASSES],
    ensures=lambda cls, keys, result:
        type(result) is cls and is_fresh(result) and result.callable.func is call_funcs.required_keys
        and Binds(result.callable.func, result.callable.args, result.callable.kwargs),
    serves=["C01", "C07"],
    inline_at_calls=True,
)

contract(
    "valida.conditions:MapCallables.forbidden_keys#wellbound",
    params=dict(keys=TupleOf()),
    variants=[dict(cls=Const(c)) for c in MAP_CLASSES],
    ensures=lambda cls, keys, result:
        type(result) is cls and is_fresh(result) and result.callable.func is call_funcs.forbidden_keys
        and Binds(result.callable.func, result.callable.args, result.callable.kwargs),
    serves=["C01", "C07"],
    inline_at_calls=True,
)
