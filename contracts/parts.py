"""What one path part matches in one node (C03): a map-value part filters the items of a non-empty mapping, a list-value
part those of a non-empty list, a map-or-list-value part either; anything else (wrong container kind, scalar, empty
container) is refused with TypeError - which DataPath.get_data turns into "matches nothing" (contracts/walk.py).
The verdict per child is the meaning of the part's condition on the child's key / index / value (spec/meaning.py)."""
from pyvc.contracts import contract, Obj, Const, ListVal, DictVal
from spec.prims import same, forall_idx
from spec.meaning import Meaning
import valida.conditions as cnds
import valida.data
from valida.datapath import MapValue, ListValue, MapOrListValue
from contracts.conditions import LeafShape
from contracts.datawrap import Scalar

DOCS = (("dict", DictVal()), ("list", ListVal()), ("scalar", Scalar()))

contract(
    "valida.datapath:MapValue.filter",
    variants=[dict(self=Obj(MapValue, condition=LeafShape(c), label=Const(None)), data=d, _kind=Const(k), _on=Const(on))
              for c, on in ((cnds.Key, "key"), (cnds.Value, "value"), (cnds.ValueDataType, "value")) for k, d in DOCS],
    ensures=lambda self, data, result, _on:
        len(result.result) == len(data)
        and forall_idx(len(data), lambda j: same(result.result[j], Meaning(
            self.condition, list(data.keys())[j] if _on == "key" else list(data.values())[j]))),
    raises={"TypeError": lambda data, _kind: _kind != "dict" or len(data) == 0},
    serves=["C03"],
)
contract(
    "valida.datapath:ListValue.filter",
    variants=[dict(self=Obj(ListValue, condition=LeafShape(c), label=Const(None)), data=d, _kind=Const(k), _on=Const(on))
              for c, on in ((cnds.Index, "index"), (cnds.Value, "value"), (cnds.ValueLength, "value")) for k, d in DOCS],
    ensures=lambda self, data, result, _on:
        len(result.result) == len(data)
        and forall_idx(len(data), lambda j: same(result.result[j], Meaning(self.condition, j if _on == "index" else data[j]))),
    raises={"TypeError": lambda data, _kind: _kind != "list" or len(data) == 0},
    serves=["C03"],
)
contract(
    "valida.datapath:MapOrListValue.filter",
    variants=[dict(self=Obj(MapOrListValue, condition=Obj(cnds.NullCondition), map_condition=LeafShape(cnds.Key),
                            list_condition=LeafShape(cnds.Index), label=Const(None)), data=d, _kind=Const(k)) for k, d in DOCS],
    ensures=lambda self, data, result, _kind:
        len(result.result) == len(data)
        and (forall_idx(len(data), lambda j: same(result.result[j], Meaning(self.map_condition, list(data.keys())[j])))
             if _kind == "dict" else
             forall_idx(len(data), lambda j: same(result.result[j], Meaning(self.list_condition, j)))),
    raises={"TypeError": lambda data, _kind: _kind == "scalar" or len(data) == 0},
    serves=["C03"],
    note="the shape primitive int parts are coerced to: key condition for mappings, index condition for lists, null value condition",
)


# a map-or-list part whose *generic* condition is a key or an index condition: it applies to mappings only / lists only
contract(
    "valida.datapath:MapOrListValue.filter#generic",
    variants=[dict(self=Obj(MapOrListValue, condition=LeafShape(c), map_condition=Obj(cnds.NullCondition),
                            list_condition=Obj(cnds.NullCondition), label=Const(None)), data=d, _kind=Const(k), _on=Const(on))
              for c, on in ((cnds.Key, "key"), (cnds.Index, "index"), (cnds.Value, "value")) for k, d in DOCS],
    ensures=lambda self, data, result, _on, _kind:
        len(result.result) == len(data)
        and forall_idx(len(data), lambda j: same(result.result[j], Meaning(
            self.condition, (list(data.keys())[j] if _on == "key" else (list(data.values())[j] if _kind == "dict" else data[j]))
            if _on != "index" else j))),
    raises={"TypeError": lambda data, _kind, _on:
            _kind == "scalar" or len(data) == 0 or (_on == "key" and _kind == "list") or (_on == "index" and _kind == "dict")},
    serves=["C03"],
    note="a key condition in the generic slot makes the part match nothing in a list (TypeError), an index condition nothing in a mapping",
)
