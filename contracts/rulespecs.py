"""Family contract of the rule-spec parser (C10 / C16): for rule specs with a one- or two-part primitive path, a leaf
condition spec, every accepted shape of the `doc` block (text, list of paragraphs, mapping with description / examples
given as text or lists, absent) and every cast declaration the library knows, `Rule.from_spec` equals the rule built
through the API (path, condition, cast - Rule equality) and its doc is the normalised block (paragraphs and examples as
lists of stripped strings); the spec - including the nested doc lists - is not written (frame obligations of every store
the parser executes: C16)."""
import copy

from pyvc.contracts import contract, Const, Shape
from pyvc.sym import LDict, LList, C
import valida.conditions as cnds
from valida.casting import cast_string_to_bool
from valida.rules import Rule
from contracts.specs import Scalar


class RuleSpec(Shape):
    def __init__(self, nparts, doc, cast):
        self.nparts, self.doc, self.cast = nparts, doc, cast

    def make(self, ip, name):
        def lit(x):
            if isinstance(x, dict):
                return LDict([(C(k), lit(v)) for k, v in x.items()], fresh=False)
            if isinstance(x, list):
                return LList([lit(v) for v in x], fresh=False)
            return C(x)
        from pyvc.contracts import Str, Int
        kinds = [Str(), Int()]
        pairs = [(C("path"), LList([kinds[i % 2].make(ip, f"{name}_p{i}") for i in range(self.nparts)], fresh=False)),
                 (C("condition"), LDict([(C("value.less_than"), Scalar().make(ip, name + "_arg"))], fresh=False))]
        if self.doc is not ...:
            pairs.append((C("doc"), lit(self.doc)))
        if self.cast is not ...:
            pairs.append((C("cast"), lit(self.cast)))
        return LDict(pairs, fresh=False)


DOCS = [..., None, " some text ", [" para one ", "two"], {"description": " d "}, {"description": [" d1", "d2 "], "examples": [" e "]},
        {"examples": ["e"]}, {}]
CASTS = [..., None, {}, {"str": "int"}, {"str": "bool"}, {"str": "int", "bool": "int"}]
CAST_OBJ = {"int": int, "bool": cast_string_to_bool}


def NormDoc(doc):
    """The documented normal form of a rule's doc block."""
    if not doc:
        return doc
    if isinstance(doc, str):
        doc = [doc]
    if isinstance(doc, list):
        doc = {"description": doc, "examples": []}
    desc = doc.get("description", [])
    if isinstance(desc, str):
        desc = [desc]
    return {**doc, "description": [i.strip() for i in desc], "examples": [i.strip() for i in doc.get("examples", [])]}


def ExpectedCast(cast):
    if not cast:
        return cast
    return {str: (int if v == "int" else cast_string_to_bool) for k, v in cast.items() if k == "str"}


def family():
    out = []
    for n in (1, 2):
        for d in DOCS:
            out.append((n, d, ...))
        for c in CASTS:
            out.append((n, " text ", c))
    return [f for f in out if not (isinstance(f[2], dict) and "bool" in f[2])]        # bool -> int is not a known cast: see malformed.py


contract(
    "valida.rules:Rule.from_spec",
    params=dict(cls=Const(Rule)),
    variants=[dict(spec=RuleSpec(n, d, c), _doc=Const(None if d is ... else d), _cast=Const(None if c is ... else c)) for n, d, c in family()],
    ensures=lambda spec, result, _doc, _cast:
        result == Rule(path=list(spec["path"]), condition=cnds.Value.less_than(spec["condition"]["value.less_than"]),
                       cast=ExpectedCast(_cast))
        and result.doc == NormDoc(_doc),
    raises={},
    serves=["C10", "C16"],
    inline_at_calls=True,
)
