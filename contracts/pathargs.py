"""Data-path arguments of a condition (C17): when a condition is evaluated against a document, every data path among its
stored arguments - positional or keyword, at the top level or nested in list / tuple / mapping arguments, to any depth
of the shapes below - is replaced by what the path selects in the document (PathSel: the interface contract of
get_data), every other argument is passed as it is, the stored arguments are not changed, and nothing is remembered on
the condition (frame); without a document the stored arguments are used as they are."""
from pyvc.contracts import contract, interface, Shape, Obj, AnyVal, TupleOf, Bool, Const
from pyvc.sym import LTuple, LDict, LList, C
from spec.prims import same, PathSel
import valida.conditions as cnds
import valida.data
from valida.datapath import DataPath
from contracts.specs import Scalar

interface(
    "arg.get_data",
    param_names=[("self", None), ("data", None), ("return_paths", False)],
    returns=AnyVal(),
    ensures=lambda self, data, return_paths, result: return_paths is False and same(result, PathSel(self, data)),
    raises={},
    assumed=True,
    note="DataPath.get_data(document, return_paths=False) names what the path selects (contracts/walk.py proves it against the walk)",
)


def P():
    return Obj(DataPath, by_ref=True, is_concrete=Bool())


class Args(Shape):
    """(args tuple, kwargs dict) of a prepared callable, built from a template: 'S' scalar, 'P' path, lists / tuples / dicts."""

    def __init__(self, template, kw):
        self.template, self.kw = template, kw

    def build(self, ip, t, name):
        if t == "S":
            return Scalar().make(ip, name)
        if t == "P":
            return P().make(ip, name)
        if isinstance(t, list):
            return LList([self.build(ip, x, f"{name}_{i}") for i, x in enumerate(t)], fresh=False)
        if isinstance(t, tuple):
            return LTuple([self.build(ip, x, f"{name}_{i}") for i, x in enumerate(t)])
        if isinstance(t, dict):
            return LDict([(C(k), self.build(ip, v, f"{name}_{k}")) for k, v in t.items()], fresh=False)
        raise TypeError(t)


class Prepared(Shape):
    def __init__(self, args, kwargs):
        self.args, self.kwargs = args, kwargs

    def make(self, ip, name):
        a = Args(None, None)
        o = Obj(cnds.PreparedConditionCallable).make(ip, name)
        o.attrs["_func"] = AnyVal().make(ip, name + "_f")
        o.attrs["_args"] = a.build(ip, tuple(self.args), name + "_a")
        o.attrs["_kwargs"] = a.build(ip, dict(self.kwargs), name + "_k")
        return o


TEMPLATES = [((), {}), (("S",), {}), (("P",), {}), (("S", "P"), {}), ((), {"value": "P"}), ((), {"value": "S", "tolerance": "P"}),
             ((["P", "S"],), {}), ((("S", "P"),), {}), (({"k": "P"},), {}), ((), {"value": {"k": "P", "j": "S"}}), (([["P"], "S"],), {}),
             (({"k": {"x": "P"}},), {}), ((), {"value": ["S", {"k": "P"}]})]


def Resolved(x, src, t):
    """The argument (of template shape t) with every data path in it replaced by what it selects in the document."""
    if t == "P":
        return PathSel(x, src)
    if t == "S":
        return x
    if isinstance(t, (list, tuple)):
        return type(x)(Resolved(i, src, ti) for i, ti in zip(x, t))
    return {k: Resolved(v, src, t[k]) for k, v in x.items()}


contract(
    "valida.conditions:PreparedConditionCallable._get_resolved_data_path_args",
    variants=[dict(self=Prepared(a, k), _ta=Const(tuple(a)), _tk=Const(dict(k))) for a, k in TEMPLATES],
    params=dict(source_data=Obj(valida.data.Data, by_ref=True, _keys=TupleOf(), _values=TupleOf(), _is_list=Bool())),
    uses_interfaces={"DataPath.get_data": "arg.get_data"},
    requires=lambda source_data: len(source_data._keys) > 0,
    ensures=lambda self, source_data, result, _ta, _tk:
        same(result[0], Resolved(self._args, source_data, _ta)) and same(result[1], Resolved(self._kwargs, source_data, _tk)),
    raises={},
    serves=["C17"],
)
contract(
    "valida.conditions:PreparedConditionCallable._get_resolved_data_path_args#no-document",
    variants=[dict(self=Prepared(a, k)) for a, k in TEMPLATES[:5]],
    params=dict(source_data=Const(None)),
    ensures=lambda self, result: result[0] is self._args and result[1] is self._kwargs,
    raises={},
    serves=["C17"],
)
