"""Serialisation of path parts (C12): for parts built through the keyword API from key / index / value conditions and a
label, `to_spec()` gives either a mapping that is JSON-compatible and that `ContainerValue.from_spec` parses back to an
equal part, or a primitive that `DataPath(...)` coerces back to an equal part - for arbitrary scalar arguments; it never
raises on these parts.  Both directions are the real code: from_spec's body is executed on the serialised value."""
from pyvc.contracts import contract, Const, Shape, Bool
from pyvc.sym import C
from spec.prims import IsJson
import valida.conditions as cnds
from valida.datapath import ContainerValue, DataPath, MapValue, ListValue, MapOrListValue
from contracts.specs import Scalar
from contracts.serial import DslLeaf


class ApiPart(Shape):
    """cls(**pieces): the part the keyword API builds from DSL-built conditions with symbolic scalar arguments."""

    def __init__(self, cls, pieces):
        self.cls, self.pieces = cls, pieces

    def make(self, ip, name):
        kwargs = {}
        for i, (k, sh) in enumerate(self.pieces.items()):
            kwargs[k] = sh.make(ip, f"{name}_{k}") if isinstance(sh, Shape) else ip.wrap(sh)
        obj = ip.call(C(self.cls), [], kwargs)

        def age(o):
            from pyvc.sym import SObj
            if isinstance(o, SObj):
                o.fresh = False                      # everything existed before to_spec is called
                for v in o.attrs.values():
                    age(v)
                ch = o.attrs.get("children")
                for c in (getattr(ch, "items", None) or []):
                    age(c)
        age(obj)
        return obj


KEY = [None, DslLeaf(cnds.Key, "equal_to", [Scalar()]), DslLeaf(cnds.KeyLength, "less_than", [Scalar()])]
INDEX = [None, DslLeaf(cnds.Index, "equal_to", [Scalar()]), DslLeaf(cnds.Index, "greater_than", [Scalar()])]
VALUE = [None, DslLeaf(cnds.Value, "less_than", [Scalar()]), DslLeaf(cnds.ValueLength, "equal_to", [Scalar()])]
LABEL = [None, Scalar()]


def parts():
    out = []
    for k in KEY:
        for v in VALUE:
            for lb in LABEL:
                out.append(ApiPart(MapValue, {n: s for n, s in (("key", k), ("value", v), ("label", lb)) if s is not None}))
    for i in INDEX:
        for v in VALUE:
            for lb in LABEL:
                out.append(ApiPart(ListValue, {n: s for n, s in (("index", i), ("value", v), ("label", lb)) if s is not None}))
    for k in KEY:
        for i in INDEX:
            for v in VALUE[:2]:
                for lb in LABEL:
                    out.append(ApiPart(MapOrListValue, {n: s for n, s in (("key", k), ("index", i), ("value", v), ("label", lb)) if s is not None}))
    return out


def combined_parts():
    """Parts whose key / index / value condition is a combination of two leaves - also of the same class and callable with
    different arguments (both must survive serialisation) - built by the real operators."""
    from contracts.serial import DslTree
    K, V, I = cnds.Key, cnds.Value, cnds.Index
    kk = lambda op: DslTree(op, DslLeaf(K, "not_equal_to", [Scalar()]), DslLeaf(K, "not_equal_to", [Scalar()]))
    vv = lambda op: DslTree(op, DslLeaf(V, "not_equal_to", [Scalar()]), DslLeaf(V, "not_equal_to", [Scalar()]))
    ii = lambda op: DslTree(op, DslLeaf(I, "not_equal_to", [Scalar()]), DslLeaf(I, "not_equal_to", [Scalar()]))
    vw = lambda op: DslTree(op, DslLeaf(V, "less_than", [Scalar()]), DslLeaf(cnds.ValueLength, "equal_to", [Scalar()]))
    out = []
    for op in "&|":
        out += [ApiPart(MapValue, {"key": kk(op)}), ApiPart(MapValue, {"value": vv(op)}), ApiPart(ListValue, {"index": ii(op)}),
                ApiPart(ListValue, {"value": vw(op), "label": Scalar()}), ApiPart(MapValue, {"key": kk(op), "value": vv("&")}),
                ApiPart(MapOrListValue, {"value": vv(op)})]
    return out


PARTS = parts() + combined_parts()

contract(
    "valida.datapath:ContainerValue.to_spec",
    variants=[dict(self=p, primitive=Const(pr)) for p in PARTS for pr in (True, False)],
    ensures=lambda self, result:
        (IsJson(result) and ContainerValue.from_spec(result) == self) if isinstance(result, dict)
        else (DataPath(result).parts[0] == self),
    raises={},
    serves=["C12", "C13"],
    note="round trip of one part: a mapping parses back to an equal part, a primitive is coerced back to an equal part",
)
