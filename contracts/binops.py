"""Contracts of the combination machinery (C02): the filtered-data combinators and the binary-operator conditions.
Oracle: pointwise Boolean algebra.  `Sem` of a combination is *defined* by these two facts, each an obligation here:
a leaf's `_filter` gives Meaning per item (contracts/conditions.py), and a combination's `_filter` gives, per item,
the operator applied to what its two children's `_filter` give on the same Data object."""
import operator

from pyvc.contracts import contract, AnyVal, Obj, Shape, Const, ListOf, FreshObj, Bool
from pyvc.sym import SObj
from spec.prims import same, forall_idx, is_bool, is_fresh
import valida.conditions as cnds
import valida.data


class TwoFiltered(Shape):
    """fd1, fd2: two filtered-data results over one shared Data object, each with one bool per item."""

    def __init__(self, which):
        self.which = which

    def make(self, ip, name):
        key = "_two_filtered"
        st = ip.path.__dict__.get(key)
        if st is None:
            import z3
            from pyvc import vals as V
            from pyvc.sym import LList, Z
            src = SObj(valida.data.Data, {"_keys": AnyVal().make(ip, "keys"), "_values": AnyVal().make(ip, "values"),
                                          "_is_list": Bool().make(ip, "is_list")}, fresh=False, name="source")
            n = V.fresh("n_items", V.I)
            ip.path.assume(n >= 0)
            fds = []
            for i in (1, 2):
                fields = {}
                for f in ("result", "pre_processor_error", "callable_error", "callable_false"):
                    s = V.fresh(f"fd{i}_{f}", V.VS)
                    ip.path.assume(z3.Length(s) == n)
                    ip.path.add_qfact(lambda j, s=s: z3.Implies(z3.And(j >= 0, j < n), V.is_bool(s[j])))
                    fields[f] = LList(None, s, fresh=False)
                fields["source"] = src
                fields["concrete_paths"] = AnyVal().make(ip, f"fd{i}_paths")
                fds.append(SObj(valida.data.FilteredData, fields, fresh=False, name=f"fd{i}"))
            st = ip.path.__dict__[key] = fds
        return st[self.which]


OPS = {valida.data.FilteredDataAnd: operator.and_, valida.data.FilteredDataOr: operator.or_, valida.data.FilteredDataXor: operator.xor}

for _cls, _op in OPS.items():
    contract(
        f"valida.data:{_cls.__name__}.__init__",
        params=dict(self=FreshObj(_cls), fd1=TwoFiltered(0), fd2=TwoFiltered(1)),
        variants=[dict(_op=Const(_op))],
        ensures=lambda self, fd1, fd2, _op:
            self.source is fd1.source and self.concrete_paths is fd1.concrete_paths
            and len(self.result) == len(fd1.result)
            and forall_idx(len(self.result), lambda j:
                           same(self.result[j], _op(fd1.result[j], fd2.result[j]))
                           and same(self.callable_false[j], not self.result[j])
                           and same(self.pre_processor_error[j], bool(fd1.pre_processor_error[j] or fd2.pre_processor_error[j]))
                           and same(self.callable_error[j], bool(fd1.callable_error[j] or fd2.callable_error[j]))),
        raises={},
        serves=["C02", "C05"],
    )
