"""Contracts of the combination machinery (C02): the filtered-data combinators and the binary-operator conditions.
Oracle: pointwise Boolean algebra.  `Sem` of a combination is *defined* by these two facts, each an obligation here:
a leaf's `_filter` gives Meaning per item (contracts/conditions.py), and a combination's `_filter` gives, per item,
the operator applied to what its two children's `_filter` give on the same Data object."""
import operator

from pyvc.contracts import contract, AnyVal, Obj, Shape, Const, ListOf, FreshObj, Bool
from pyvc.sym import SObj
from spec.prims import same, forall_idx, is_bool, is_fresh
import valida.conditions as cnds
import valida.data


class TwoFiltered(Shape):
    """fd1, fd2: two filtered-data results over one shared Data object, each with one bool per item."""

    def __init__(self, which):
        self.which = which

    def make(self, ip, name):
        key = "_two_filtered"
        st = ip.path.__dict__.get(key)
        if st is None:
            import z3
            from pyvc import vals as V
            from pyvc.sym import LList, Z
            src = SObj(valida.data.Data, {"_keys": AnyVal().make(ip, "keys"), "_values": AnyVal().make(ip, "values"),
                                          "_is_list": Bool().make(ip, "is_list")}, fresh=False, name="source")
            n = V.fresh("n_items", V.I)
            ip.path.assume(n >= 0)
            fds = []
            for i in (1, 2):
                fields = {}
                for f in ("result", "pre_processor_error", "callable_error", "callable_false"):
                    s = V.fresh(f"fd{i}_{f}", V.VS)
                    ip.path.assume(z3.Length(s) == n)
                    ip.path.add_qfact(lambda j, s=s: z3.Implies(z3.And(j >= 0, j < n), V.is_bool(s[j])))
                    fields[f] = LList(None, s, fresh=False)
                fields["source"] = src
                fields["concrete_paths"] = AnyVal().make(ip, f"fd{i}_paths")
                fds.append(SObj(valida.data.FilteredData, fields, fresh=False, name=f"fd{i}"))
            st = ip.path.__dict__[key] = fds
        return st[self.which]


OPS = {valida.data.FilteredDataAnd: operator.and_, valida.data.FilteredDataOr: operator.or_, valida.data.FilteredDataXor: operator.xor}

for _cls, _op in OPS.items():
    contract(
        f"valida.data:{_cls.__name__}.__init__",
        params=dict(self=FreshObj(_cls), fd1=TwoFiltered(0), fd2=TwoFiltered(1)),
        variants=[dict(_op=Const(_op))],
        ensures=lambda self, fd1, fd2, _op:
            self.source is fd1.source and self.concrete_paths is fd1.concrete_paths
            and len(self.result) == len(fd1.result) and len(self.pre_processor_error) == len(fd1.result)
            and len(self.callable_error) == len(fd1.result) and len(self.callable_false) == len(fd1.result)
            and forall_idx(len(self.result), lambda j:
                           same(self.result[j], _op(fd1.result[j], fd2.result[j]))
                           and same(self.callable_false[j], not self.result[j])
                           and same(self.pre_processor_error[j], bool(fd1.pre_processor_error[j] or fd2.pre_processor_error[j]))
                           and same(self.callable_error[j], bool(fd1.callable_error[j] or fd2.callable_error[j]))),
        raises={},
        init_fields=dict(source=lambda fd1: fd1.source,
                         concrete_paths=lambda fd1: fd1.concrete_paths,
                         children=AnyVal(), result=ListOf(fresh=True),
                         pre_processor_error=ListOf(fresh=True), callable_error=ListOf(fresh=True), callable_false=ListOf(fresh=True)),
        requires=lambda fd1, fd2:
            fd1.source is fd2.source and len(fd1.result) == len(fd2.result)
            and len(fd1.pre_processor_error) == len(fd1.result) and len(fd2.pre_processor_error) == len(fd1.result)
            and len(fd1.callable_error) == len(fd1.result) and len(fd2.callable_error) == len(fd1.result)
            and forall_idx(len(fd1.result), lambda j: is_bool(fd1.result[j]) and is_bool(fd2.result[j])
                           and is_bool(fd1.pre_processor_error[j]) and is_bool(fd2.pre_processor_error[j])
                           and is_bool(fd1.callable_error[j]) and is_bool(fd2.callable_error[j])),
        serves=["C02", "C05"],
    )


# ------------------------------------------------------------------------------------------ combinations
from pyvc.contracts import interface, TupleOf, DictVal
from pyvc.sym import LTuple
from spec.prims import SemAt


class Pair(Shape):
    """children = (c0, c1): two conditions of unknown class (any tree)."""

    def make(self, ip, name):
        return LTuple([AnyVal().make(ip, name + "0"), AnyVal().make(ip, name + "1")])


def DataObj():
    return Obj("valida.data:Data", _keys=TupleOf(), _values=TupleOf(), _is_list=Bool())


def FilteredShape(cls="valida.data:FilteredData"):
    return Obj(cls, fresh=True, result=ListOf(fresh=True), pre_processor_error=ListOf(fresh=True), callable_error=ListOf(fresh=True),
               callable_false=ListOf(fresh=True), concrete_paths=AnyVal())


# what every condition's _filter does (without paths attached): a fresh filtered view over the same Data object with one
# bool per item; SemAt(c, data, j) names "what condition c gives for item j of data" (Meaning for a leaf - proved in
# contracts/conditions.py - and, by the obligations below, the operator applied to the children's SemAt for a combination)
interface(
    "_filter",
    param_names=[("self", None), ("data", None), ("data_has_paths", False), ("source_data", None)],
    requires=lambda data, data_has_paths: not data_has_paths and len(data._keys) == len(data._values),
    returns=FilteredShape(),
    result_aliases=dict(source="data"),
    ensures=lambda self, data, source_data, result:
        result.source is data and result.concrete_paths is None
        and len(result.result) == len(data._values) and len(result.pre_processor_error) == len(data._values)
        and len(result.callable_error) == len(data._values) and len(result.callable_false) == len(data._values)
        and forall_idx(len(data._values), lambda j: is_bool(result.result[j]) and is_bool(result.pre_processor_error[j])
                       and is_bool(result.callable_error[j]) and is_bool(result.callable_false[j])
                       and same(result.result[j], SemAt(self, data, j, source_data))),
    raises={},
    assumed=True,
    note="satisfied by Condition._filter (8 leaf classes) and by ConditionAnd/Or/Xor._filter, each proved against its own contract",
)

def _witnesses(cls):
    def make():
        from valida.conditions import Value, Key
        out = []
        leaves = [Value.equal_to(1), Value.gt(1), Value.lt(3), Value.dtype.equal_to(int), Key.equal_to("a"), Value.length.gt(0)]
        for data in ([1, 2, 3], {"a": 1, "b": [2]}, [0, None, "x"]):
            for a in leaves:
                for b in leaves:
                    o = object.__new__(cls)
                    o.children = (a, b)
                    out.append(dict(self=o, data=valida.data.Data(data), data_has_paths=False, source_data=None))
        return out
    return make


for _cls, _fd, _op in ((cnds.ConditionAnd, valida.data.FilteredDataAnd, operator.and_), (cnds.ConditionOr, valida.data.FilteredDataOr, operator.or_),
                       (cnds.ConditionXor, valida.data.FilteredDataXor, operator.xor)):
    contract(
        f"valida.conditions:{_cls.__name__}._filter",
        params=dict(self=Obj(_cls, children=Pair()), data=DataObj(), data_has_paths=Const(False), source_data=AnyVal()),
        variants=[dict(_op=Const(_op), _fd=Const(_fd))],
        requires=lambda self, data:
            isinstance(self.children[0], cnds.ConditionLike) and isinstance(self.children[1], cnds.ConditionLike)
            and len(data._keys) == len(data._values),
        ensures=lambda self, data, source_data, result, _op, _fd:
            type(result) is _fd and is_fresh(result) and result.source is data
            and len(result.result) == len(data._values)
            and result.concrete_paths is None
            and len(result.pre_processor_error) == len(data._values) and len(result.callable_error) == len(data._values)
            and len(result.callable_false) == len(data._values)
            and forall_idx(len(data._values), lambda j:
                           same(result.result[j], _op(SemAt(self.children[0], data, j, source_data),
                                                      SemAt(self.children[1], data, j, source_data)))
                           and is_bool(result.pre_processor_error[j]) and is_bool(result.callable_error[j])
                           and is_bool(result.callable_false[j])),
        raises={},
        witnesses=_witnesses(_cls),
        serves=["C02"],
    )


# ------------------------------------------------------------------------------------------ with paths attached (C05)
from pyvc.contracts import TupleOf
from pyvc.sym import C as _C
from spec.prims import fst, snd

interface(
    "_filter.paths",
    param_names=[("self", None), ("data", None), ("data_has_paths", False), ("source_data", None)],
    requires=lambda data, data_has_paths:
        data_has_paths is True and len(data._keys) == len(data._values) and len(data._values) > 0
        and forall_idx(len(data._values), lambda j: isinstance(data._values[j], tuple) and len(data._values[j]) == 2),
    modifies=["data._values"],
    returns=Obj("valida.data:FilteredData", fresh=True, result=ListOf(fresh=True), pre_processor_error=ListOf(fresh=True),
                callable_error=ListOf(fresh=True), callable_false=ListOf(fresh=True), concrete_paths=TupleOf()),
    result_aliases=dict(source="data"),
    ensures=lambda self, data, source_data, result, old:
        len(data._values) == len(old["data._values"]) and len(result.concrete_paths) == len(old["data._values"])
        and len(result.result) == len(data._values) and len(result.pre_processor_error) == len(data._values)
        and len(result.callable_error) == len(data._values) and len(result.callable_false) == len(data._values)
        and forall_idx(len(data._values), lambda j: is_bool(result.result[j]) and is_bool(result.pre_processor_error[j])
                       and is_bool(result.callable_error[j]) and is_bool(result.callable_false[j])
                       and same(data._values[j], fst(old["data._values"][j]))
                       and same(result.concrete_paths[j], snd(old["data._values"][j]))
                       and same(result.result[j], SemAt(self, data, j, source_data))),
    raises={},
    assumed=True,
    note="a condition's _filter on a Data object holding (value, path) pairs: the pairs are split (the Data object now holds the "
         "values, the view the paths), verdicts are those of filtering the values; proved for leaves (Condition._filter#paths) "
         "and, below, for combinations",
)


def _which_filter(args, kwargs):
    flag = args[1] if len(args) > 1 else kwargs.get("data_has_paths")
    return "_filter.paths" if isinstance(flag, _C) and flag.v is True else "_filter"


for _cls, _fd, _op in ((cnds.ConditionAnd, valida.data.FilteredDataAnd, operator.and_), (cnds.ConditionOr, valida.data.FilteredDataOr, operator.or_),
                       (cnds.ConditionXor, valida.data.FilteredDataXor, operator.xor)):
    contract(
        f"valida.conditions:{_cls.__name__}._filter#paths",
        params=dict(self=Obj(_cls, children=Pair()), data=Obj("valida.data:Data", _keys=TupleOf(), _values=TupleOf(), _is_list=Const(True)),
                    data_has_paths=Const(True), source_data=AnyVal()),
        variants=[dict(_op=Const(_op), _fd=Const(_fd))],
        uses_interfaces={"_filter": _which_filter},
        modifies=["data._values"],
        requires=lambda self, data:
            isinstance(self.children[0], cnds.ConditionLike) and isinstance(self.children[1], cnds.ConditionLike)
            and len(data._keys) == len(data._values) and len(data._values) > 0
            and forall_idx(len(data._values), lambda j: isinstance(data._values[j], tuple) and len(data._values[j]) == 2),
        ensures=lambda self, data, source_data, result, old, _op, _fd:
            type(result) is _fd and result.source is data
            and len(data._values) == len(old["data._values"]) and len(result.concrete_paths) == len(old["data._values"])
            and len(result.result) == len(data._values)
            and forall_idx(len(data._values), lambda j:
                           same(data._values[j], fst(old["data._values"][j]))
                           and same(result.concrete_paths[j], snd(old["data._values"][j]))
                           and same(result.result[j], _op(SemAt(self.children[0], data, j, source_data),
                                                          SemAt(self.children[1], data, j, source_data)))),
        raises={},
        serves=["C05", "C02"],
        note="the first child splits the (value, path) pairs, the second filters the values; the combination keeps the first child's paths",
    )
