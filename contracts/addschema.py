"""Schema.add_schema (C18): after S.add_schema(T, R), S has its previous rules plus, for every rule of T, a *new* rule with the
same condition, cast and doc objects and the path R followed by the rule's path; rules are ordered shortest path first;
T's rule list and rule objects are not written (frame obligations of the stores executed); the new
path is flagged concrete (one node, addressed by primitives only) only if both R and the rule's path are.  Schemas of 0-2 API-built
rules on both sides, roots of one or two primitive parts with arbitrary keys."""
from pyvc.contracts import contract, Shape, Str, Int
from pyvc.sym import C
from spec.prims import is_fresh
from valida.datapath import DataPath
from valida.schema import Schema
from valida.datapath import ListValue, MapValue
from contracts.ruleserial import ApiRule, ApiSchema, CONDS
from contracts.parttospec import ApiPart


class ApiPath(Shape):
    def __init__(self, parts):
        self.parts = parts

    def make(self, ip, name):
        p = ip.call(C(DataPath), [s.make(ip, f"{name}_{i}") for i, s in enumerate(self.parts)], {})
        p.fresh = False
        return p


R1 = ApiRule([Str()], CONDS[0], None)
R2 = ApiRule([Str(), Int()], CONDS[1], {str: int})
R3 = ApiRule([], CONDS[2], {})
R4 = ApiRule([Str(), ApiPart(ListValue, {})], CONDS[0], None)          # a path that matches several nodes
R5 = ApiRule([ApiPart(MapValue, {})], CONDS[1], None)
SS = [ApiSchema([]), ApiSchema([R1]), ApiSchema([R2, R1])]
TS = [ApiSchema([R3]), ApiSchema([R1, R3]), ApiSchema([R2]), ApiSchema([R4]), ApiSchema([R5, R1])]
ROOTS = [ApiPath([Str()]), ApiPath([Str(), Int()])]
PRIM_ROOTS = [Str(), Int()]          # a one-part root given as the bare key / index


def Added(S_rules, t_rule, root):
    """Some rule of S is the re-rooted copy of T's rule."""
    return any(x is not t_rule and x.condition is t_rule.condition and x.cast is t_rule.cast and x.doc is t_rule.doc
               and x.path.parts == root.parts + t_rule.path.parts
               and (not x.path.is_concrete or (root.is_concrete and t_rule.path.is_concrete)) for x in S_rules)


contract(
    "valida.schema:Schema.add_schema",
    variants=[dict(self=s, schema=t, root_path=r) for s in SS for t in TS for r in ROOTS],
    modifies=["self.rules"],
    ensures=lambda self, schema, root_path, old:
        len(self.rules) == len(old["self.rules"]) + len(schema.rules)
        and all(any(x is o for x in self.rules) for o in old["self.rules"])
        and all(Added(self.rules, t, root_path) for t in schema.rules)
        and all(len(a.path) <= len(b.path) for a, b in zip(self.rules, self.rules[1:])),
    raises={},
    serves=["C18"],
)

contract(
    "valida.schema:Schema.add_schema#prim-root",
    variants=[dict(self=s, schema=t, root_path=r) for s in SS[:2] for t in TS for r in PRIM_ROOTS],
    modifies=["self.rules"],
    ensures=lambda self, schema, root_path, old:
        len(self.rules) == len(old["self.rules"]) + len(schema.rules)
        and all(any(x is not t and x.condition is t.condition and x.cast is t.cast and len(x.path.parts) == 1 + len(t.path.parts)
                    and x.path.parts[0] == DataPath(root_path).parts[0] and x.path.parts[1:] == t.path.parts for x in self.rules)
                for t in schema.rules),
    raises={},
    serves=["C18"],
    note="the root given as a bare key / index stands for the one-part path of that key",
)
