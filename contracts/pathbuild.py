"""Construction of data paths from primitive parts (C03: "a primitive part matches the child whose key or index equals
it"; C10: specs and API build the same objects): a str / float part becomes a map-value part whose key condition is
`Key.equal_to(part)`, an int part (bool included: True addresses key True and list position 1) becomes a
map-or-list-value part with `Key.equal_to(part)` for mappings and `Index.equal_to(part)` for lists, container parts are
taken as they are, anything else is refused with TypeError; the path is concrete iff it has no container part."""
from pyvc.contracts import contract, Shape, FreshObj, Const, Str, Int, Bool, AnyVal, Obj
from pyvc.sym import LTuple, Z
from spec.prims import same
import valida.conditions as cnds
import valida.callables as calls
from valida.datapath import DataPath, MapValue, ListValue, MapOrListValue, DataPathDatumType, DataPathMultiType


class OnePart(Shape):
    def __init__(self, inner):
        self.inner = inner

    def make(self, ip, name):
        return LTuple([self.inner.make(ip, name + "0") if isinstance(self.inner, Shape) else ip.wrap(self.inner)])


class FloatVal(Shape):
    def make(self, ip, name):
        from pyvc import vals as V
        return Z(V.VFloat(V.fresh(name, V.R)))


def KeyEq(c, v):
    return type(c) is cnds.Key and c.callable.func is calls.equal_to and len(c.callable.args) == 0 \
        and len(c.callable.kwargs) == 1 and same(c.callable.kwargs["value"], v)


def IndexEq(c, v):
    return type(c) is cnds.Index and c.callable.func is calls.equal_to and len(c.callable.args) == 0 \
        and len(c.callable.kwargs) == 1 and same(c.callable.kwargs["value"], v)


PRIMS = {"str": Str(), "float": FloatVal(), "int": Int(), "bool": Bool()}

contract(
    "valida.datapath:DataPath.__init__",
    params=dict(self=FreshObj(DataPath), datum_type=Const(None), multi_type=Const(None), source_data=Const(None)),
    variants=[dict(parts=OnePart(sh), _kind=Const(k)) for k, sh in PRIMS.items()],
    ensures=lambda self, parts, _kind:
        len(self.parts) == 1 and self.is_concrete is True
        and self._DATUM_TYPE is DataPathDatumType.NONE and self._MULTI_TYPE is DataPathMultiType.NONE
        and ((type(self.parts[0]) is MapValue and KeyEq(self.parts[0].condition, parts[0]))
             if _kind in ("str", "float") else
             (type(self.parts[0]) is MapOrListValue and type(self.parts[0].condition) is cnds.NullCondition
              and KeyEq(self.parts[0].map_condition, parts[0]) and IndexEq(self.parts[0].list_condition, parts[0]))),
    raises={},
    serves=["C03", "C10"],
)
contract(
    "valida.datapath:DataPath.__init__#other",
    params=dict(self=FreshObj(DataPath), datum_type=Const(None), multi_type=Const(None), source_data=Const(None)),
    variants=[dict(parts=OnePart(Const(None))), dict(parts=OnePart(Const((1, 2)))), dict(parts=OnePart(Const([1])))],
    raises={"TypeError": True},
    ensures=lambda self: False,
    serves=["C03", "C10"],
    note="a part that is neither a container part nor str / float / int is refused",
)
