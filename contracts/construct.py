"""Construction protocol of combinations (C02, second and third sentence): `a & b`, `a | b`, `a ^ b` give

  * the other operand itself when one operand is the null condition (so the combination *is* that operand and
    filters as it does: null is the identity),
  * otherwise a new object of the operator's class whose children are exactly the two operand objects, in order;

and in both cases no attribute of either operand is written (the frame obligations of the stores executed by
__new__/__init__: `children` may only be bound on the object allocated by this very construction).  Together with
the `_filter` contracts of contracts/binops.py (a combination's result is the operator applied pointwise to its
children's results over the same Data object) this is the inductive step of C02 for trees of any depth.

Operands range over every class of condition and, for combinations as operands, every operator with children of
every datum kind; deeper operands add nothing: __new__/__init__ look at the operands only through `is_null` (a class
test) and `flatten()` (read-only recursion, proved to modify nothing by its #frame contract).
"""
from pyvc.contracts import contract, AnyVal, Obj, Shape, Const, TupleOf, DictVal, FuncVal
from pyvc.sym import LTuple
from spec.prims import is_fresh
from spec.meaning import HasKind
import valida.conditions as cnds
from contracts.callables import CALLABLE_NAMES


def Leaf(cls):
    return Obj(cls, callable=Obj("valida.conditions:PreparedConditionCallable", _func=FuncVal(CALLABLE_NAMES),
                                 _args=TupleOf(), _kwargs=DictVal()))


class Comb(Shape):
    """An existing combination of two leaves."""

    def __init__(self, cls, a, b):
        self.cls, self.a, self.b = cls, a, b

    def make(self, ip, name):
        from pyvc.sym import SObj
        o = SObj(self.cls, {}, fresh=False, name=name)
        o.attrs["children"] = LTuple([Leaf(self.a).make(ip, name + ".c0"), Leaf(self.b).make(ip, name + ".c1")])
        return o


OPERANDS = {
    "value": Leaf(cnds.Value), "value-length": Leaf(cnds.ValueLength), "value-dtype": Leaf(cnds.ValueDataType),
    "key": Leaf(cnds.Key), "key-length": Leaf(cnds.KeyLength), "key-dtype": Leaf(cnds.KeyDataType),
    "index": Leaf(cnds.Index), "null": Obj(cnds.NullCondition),
    "and(value,value)": Comb(cnds.ConditionAnd, cnds.Value, cnds.Value),
    "and(key,value)": Comb(cnds.ConditionAnd, cnds.Key, cnds.Value),
    "or(value,index)": Comb(cnds.ConditionOr, cnds.Value, cnds.Index),
    "or(value,value)": Comb(cnds.ConditionOr, cnds.Value, cnds.Value),
    "xor(value,key-length)": Comb(cnds.ConditionXor, cnds.Value, cnds.KeyLength),
    "xor(value,value)": Comb(cnds.ConditionXor, cnds.Value, cnds.Value),
}


def _witnesses():
    """Concrete operand pairs for replay (a counter-model over uninterpreted `==` of objects cannot be rebuilt)."""
    from valida.conditions import Value, Key, Index, NullCondition
    def pool():
        a = Value.equal_to(1)
        return [a, Value.equal_to(1), Value.gt(0), Value.length.equal_to(2), Value.dtype.equal_to(int), Key.equal_to("a"),
                Index.equal_to(0), NullCondition(), a | Value.lt(3), Value.lt(3) | a, a & a, NullCondition()]
    out = []
    n = len(pool())
    for i in range(n):
        for j in range(n):
            p = pool()
            out.append(dict(self=p[i], other=p[j]))
    return out


for _meth, _cls in (("__and__", cnds.ConditionAnd), ("__or__", cnds.ConditionOr), ("__xor__", cnds.ConditionXor)):
    contract(
        f"valida.conditions:ConditionLike.{_meth}",
        variants=[dict(self=a, other=b, _cls=Const(_cls)) for a in OPERANDS.values() for b in OPERANDS.values()],
        ensures=lambda self, other, result, _cls:
            (result is self) if isinstance(other, cnds.NullCondition) else (
                (result is other) if isinstance(self, cnds.NullCondition) else (
                    type(result) is _cls and is_fresh(result) and len(result.children) == 2
                    and result.children[0] is self and result.children[1] is other)),
        raises={"TypeError": lambda self, other:
                not isinstance(self, cnds.NullCondition) and not isinstance(other, cnds.NullCondition)
                and (HasKind(self, cnds.KeyLike) or HasKind(other, cnds.KeyLike))
                and (HasKind(self, cnds.IndexLike) or HasKind(other, cnds.IndexLike))},
        modifies=[],
        inline_at_calls=True,       # callers execute the (short) real code; the contract is proved on its own
        witnesses=_witnesses,
        serves=["C02"],
        note="construction protocol: __new__ short-circuit, __init__ on the new object only",
    )
