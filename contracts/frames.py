"""Frame contracts ("#frame"): for every function of valida.data / conditions / datapath / rules / schema / utils /
casting, the *only* pre-existing objects it may write to are the ones its `modifies` clause names; everything else
it stores into must have been allocated in the same activation (DESIGN.md §2.8).  Verified modularly: a call is
checked against the callee's frame contract (for a receiver of unknown class: against the union of the contracts of
all program methods of that name), never against its body.

Together with "no function writes a module global or class attribute" (same obligations: such a store is never fresh)
this is what decides C08 (validation is read-only, results repeatable), C16 (parsing leaves the spec unchanged), the
operand-reuse clause of C02 and the "T unchanged" clause of C18.

The table below lists the functions whose frame is not empty, with the reason; every other function gets
`modifies nothing`.  `self` of an __init__ is the freshly allocated object.
"""
import inspect

from pyvc.contracts import contract, Opaque, FreshObj, Const
import valida.casting
import valida.conditions
import valida.data
import valida.datapath
import valida.rules
import valida.schema
import valida.utils

MODIFIES = {
    # the Data wrapper's own list is rebound when the (value, path) pairs are split; the wrapper is the one that
    # ConditionLike.filter creates around the list of pairs (data_has_paths=True), never a caller's object
    "valida.data:Data.extract_paths": (["self._values"], None),
    "valida.data:FilteredData.__init__": (["source._values"], lambda data_has_paths=False: data_has_paths),
    "valida.conditions:Condition._filter": (["data._values"], lambda data_has_paths=False: data_has_paths),
    "valida.conditions:ConditionBinaryOp._filter": (["data._values"], lambda data_has_paths=False: data_has_paths),
    "valida.conditions:ConditionAnd._filter": (["data._values"], lambda data_has_paths=False: data_has_paths),
    "valida.conditions:ConditionOr._filter": (["data._values"], lambda data_has_paths=False: data_has_paths),
    "valida.conditions:ConditionXor._filter": (["data._values"], lambda data_has_paths=False: data_has_paths),
    # the public filter wraps anything that is not already a Data object in a fresh one
    "valida.conditions:ConditionLike.filter": (["data._values"], lambda data, data_has_paths=False: data_has_paths and isinstance(data, valida.data.Data)),
    "valida.conditions:KeyLike.filter": (["data._values"], lambda data, data_has_paths=False: data_has_paths and isinstance(data, valida.data.Data)),
    "valida.conditions:IndexLike.filter": (["data._values"], lambda data, data_has_paths=False: data_has_paths and isinstance(data, valida.data.Data)),
    # casts are written into the private copy only
    "valida.data:set_datum": (["data"], None),
    "valida.rules:Rule.test": (["_data_copy"], None),
    # the schema being extended (its rule list), by design
    "valida.schema:Schema.add_schema": (["self.rules"], None),
    # Data.set works on `get_original()`, a *shallow* rebuild of the wrapped document, and set_datum walks into its nested
    # containers: the wrapped document's inner containers are written (its docstring says "return a copy").  Nothing in
    # the package calls Data.set, so no property's cone contains it; the frame is declared as it is, not assumed away.
    "valida.data:Data.set": (["self"], None),
    # property setters (called on the fresh object of __init__ / of copy.copy)
    "valida.datapath:DataPath.DATUM_TYPE": (["self._DATUM_TYPE"], None),
    "valida.datapath:DataPath.MULTI_TYPE": (["self._MULTI_TYPE"], None),
    # RuleTest._test fills in the result fields of its own (fresh) RuleTest object; it is only called from __init__
    "valida.rules:RuleTest._test": (["self._is_valid", "self._tested", "self._failures", "self.sub_data", "self.filter"], None),
}
# functions whose result is a fresh object / container (a copy), which the caller may therefore modify
FRESH_RESULT = {"valida.data:Data.get_original", "valida.datapath:DataPath._copy_with_datum_type",
                "valida.datapath:DataPath._copy_with_multi_type"}
# not part of any property's cone (debug printing, test helper class, unused code)
SKIP = {"valida.schema:_TestDataSchema.__init__", "valida.schema:_TestDataSchema.from_yaml_file",
        "valida.schema:_TestDataSchema.data_and_schema", "valida.schema:Schema.from_yaml_file",
        "valida.datapath:validate_rule_paths", "valida.datapath:resolve_implicit_types",
        "valida.rules:RuleTest.print_failures", "valida.schema:ValidatedData.print_failures"}
def serves_of(qn):
    """C08 takes the whole cone; the other properties the functions their own frame clause is about."""
    out = ["C08"]
    name = qn.split(":")[1]
    mod = qn.split(":")[0]
    if any(k in name for k in ("from_spec", "from_json_like", "from_part_specs", "init_rules", "from_yaml", "from_str",
                               "get_func_args_by_kind", "_data_path_args")) or name.endswith("__init__") and "Rule." in name:
        out.append("C16")
    if mod == "valida.conditions" and any(k in name for k in ("ConditionBinaryOp", "ConditionAnd", "ConditionOr", "ConditionXor",
                                                              "__and__", "__or__", "__xor__", "flatten", "is_like")) \
            or name in ("null_condition_binary_check", "get_container_value_condition") or name.endswith(".filter") and mod == "valida.datapath":
        out.append("C02")
    if name in ("Schema.validate", "Schema.__init__", "Schema.__len__", "Rule.test", "Rule.__init__") or name.startswith(
            ("ValidatedData.", "RuleTest.", "RuleTestFailureItem.")):
        out.append("C06")
    if name in ("Schema.add_schema", "Schema.__init__", "Rule.__init__", "DataPath.__init__") or "truediv" in name:
        out.append("C18")
    if (mod in ("valida.rules", "valida.data") or name.startswith("ValidatedData.")) and not any(
            k in name for k in ("from_spec", "from_json_like", "to_json_like")):
        out.append("C15")
    if "PreparedConditionCallable" in name or name in ("Condition._filter", "ConditionBinaryOp._filter", "RuleTest._test", "RuleTest.__init__"):
        out.append("C17")
    return out


SERVES = ["C08"]

# assumed facts about results (not checked by the frame-only verification of the function itself; listed in the evidence)
RESULT_FACTS = {
    # get_data returns document nodes (or tuples / lists of them), never a Data wrapper: documents are JSON-like values
    "valida.datapath:DataPath.get_data": lambda result: not isinstance(result, valida.data.Data),
}
# class of the result where later dynamic attribute look-ups need it (getattr(obj, <suffix token>)() in DataPath.from_spec)
RESULT_CLASS = {"valida.datapath:DataPath.from_part_specs": valida.datapath.DataPath}
FRAME_FUNCTIONS = []


def _functions(module):
    for name, obj in vars(module).items():
        if inspect.isfunction(obj) and obj.__module__ == module.__name__:
            yield f"{module.__name__}:{name}", obj, None
        elif inspect.isclass(obj) and obj.__module__ == module.__name__:
            for mname, m in vars(obj).items():
                f = m.__func__ if isinstance(m, (classmethod, staticmethod)) else m
                if isinstance(m, property):
                    if m.fget is not None:
                        yield f"{module.__name__}:{obj.__name__}.{mname}", m.fget, obj
                    if m.fset is not None:
                        yield f"{module.__name__}:{obj.__name__}.{mname}@setter", m.fset, obj
                    continue
                if inspect.isfunction(f):
                    yield f"{module.__name__}:{obj.__name__}.{mname}", f, obj


for _mod in (valida.utils, valida.casting, valida.data, valida.conditions, valida.datapath, valida.rules, valida.schema):
    for _qn, _f, _cls in _functions(_mod):
        _base = _qn.replace("@setter", "")
        if _qn.endswith("__repr__") or _f.__code__.co_filename != _mod.__file__:
            continue
        if _base in SKIP:
            # outside every property's cone (file I/O, printing, test helper): assumed to modify nothing
            contract(_qn + "#frame", params={}, modifies=[], raises_any=True, frame_only=True, assumed=True, serves=SERVES)
            continue
        if _f.__code__.co_flags & 0x20:        # generators: the three trivial __iter__s are inlined as their sequences
            continue
        _mods, _when = MODIFIES.get(_base, ([], None))
        _params = {}
        _argnames = list(inspect.signature(_f).parameters)
        if _cls is not None and _f.__name__ == "__init__" and _argnames:
            _params[_argnames[0]] = FreshObj(_cls)
        if _cls is not None and isinstance(vars(_cls).get(_f.__name__), classmethod) and _argnames:
            _params[_argnames[0]] = Const(_cls)
        for _a in _argnames:
            _params.setdefault(_a, Opaque())
        _c = contract(_qn + "#frame", params=_params, modifies=_mods, raises_any=True, frame_only=True, serves=serves_of(_qn),
                      note="frame only")
        _c.modifies_when = _when
        _c.func_obj = _f
        _c.fresh_result = _base in FRESH_RESULT
        if _base in RESULT_CLASS:
            from pyvc.contracts import ObjVal
            _c.returns = ObjVal(RESULT_CLASS[_base])
        if _base in RESULT_FACTS:
            _c.ensures = RESULT_FACTS[_base]
        FRAME_FUNCTIONS.append(_qn + "#frame")
