"""Modifier copies of a data path (C04: modifiers mean what they say, whatever the order, and multiplicity modifiers are
refused on concrete paths; C14: a path with a modifier is not equal to the path without it and agrees with it on parts, concreteness and
bound data): `p.length()`, `p.dtype()`, `p.map_keys()`, `p.map_values()`, `p.first()`, `p.last()`,
`p.single()`, `p.all()` return a new path with the same parts and that one modifier set, leave `p` unchanged, and refuse a
second modifier of the same kind (ValueError); multiplicity modifiers on a concrete path are refused (ValueError)."""
from pyvc.contracts import contract, Shape, Str, Int, Const
from pyvc.sym import C, LDict
from spec.prims import is_fresh
from valida.datapath import DataPath, MapValue, DataPathDatumType as DT, DataPathMultiType as MT


class APath(Shape):
    """DataPath(<str>, <int>[, MapValue()]) through the constructor (a concrete or a non-concrete path)."""

    def __init__(self, concrete, datum=None, multi=None):
        self.concrete, self.datum, self.multi = concrete, datum, multi

    def make(self, ip, name):
        parts = [Str().make(ip, name + "_k"), Int().make(ip, name + "_i")]
        if not self.concrete:
            parts.append(ip.call(C(MapValue), [], {}))
        kw = {}
        if self.datum is not None:
            kw["datum_type"] = C(self.datum)
        if self.multi is not None:
            kw["multi_type"] = C(self.multi)
        p = ip.call(C(DataPath), parts, kw)
        p.fresh = False
        return p


DATUM = {"length": DT.LENGTH, "dtype": DT.DTYPE, "map_keys": DT.MAP_KEYS, "map_values": DT.MAP_VALUES}
MULTI = {"first": MT.FIRST, "last": MT.LAST, "single": MT.SINGLE, "all": MT.ALL}

for _m, _dt in DATUM.items():
    contract(
        f"valida.datapath:DataPath.{_m}",
        variants=[dict(self=APath(c, multi=mt), _dt=Const(_dt)) for c in (True, False) for mt in ((None,) if c else (None, MT.FIRST.value))],
        ensures=lambda self, result, _dt:
            result is not self and is_fresh(result) and result.parts is self.parts and result.DATUM_TYPE is _dt
            and result.MULTI_TYPE is self.MULTI_TYPE and self.DATUM_TYPE is DT.NONE
            and result.is_concrete is self.is_concrete and result.source_data is self.source_data and not (result == self),
        raises={},
        serves=["C04", "C14"],
    )
    contract(
        f"valida.datapath:DataPath.{_m}#twice",
        variants=[dict(self=APath(True, datum=d.value)) for d in DATUM.values()],
        ensures=lambda self: False,
        raises={"ValueError": True},
        serves=["C04"],
        note="a second datum modifier is refused",
    )
for _m, _mt in MULTI.items():
    contract(
        f"valida.datapath:DataPath.{_m}",
        variants=[dict(self=APath(False, datum=d), _mt=Const(_mt)) for d in (None, DT.LENGTH.value)],
        ensures=lambda self, result, _mt:
            result is not self and is_fresh(result) and result.parts is self.parts and result.MULTI_TYPE is _mt
            and result.DATUM_TYPE is self.DATUM_TYPE and self.MULTI_TYPE is MT.NONE
            and result.is_concrete is self.is_concrete and result.source_data is self.source_data and not (result == self),
        raises={},
        serves=["C04", "C14"],
    )
    contract(
        f"valida.datapath:DataPath.{_m}#refused",
        variants=[dict(self=APath(True)), dict(self=APath(False, multi=MT.LAST.value))],
        ensures=lambda self: False,
        raises={"ValueError": True},
        serves=["C04"],
        note="a multiplicity modifier on a concrete path, or a second one, is refused",
    )
