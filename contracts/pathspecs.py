"""Family contract of the path-spec parser (C10): `{"path[.<suffix>[.<suffix>]]": [parts]}` in every spelling of the
suffixes (datum modifiers length / len / dtype / type / map_keys / map_values, multiplicity modifiers first / last /
single / all, either order, any letter case) equals the path built through the API from the same parts with the same
modifiers; multiplicity modifiers need a non-concrete path, which the family provides with a bare map-value part."""
from pyvc.contracts import contract, Const, Shape, Str, Int
from pyvc.sym import LDict, LList, C
from valida.datapath import DataPath, MapValue

DATUM = {"length": "length", "len": "length", "dtype": "dtype", "type": "dtype", "map_keys": "map_keys", "map_values": "map_values"}
MULTI = {"first": "first", "last": "last", "single": "single", "all": "all"}


class PathSpec(Shape):
    def __init__(self, key, concrete):
        self.key, self.concrete = key, concrete

    def make(self, ip, name):
        parts = [Str().make(ip, name + "_k"), Int().make(ip, name + "_i")]
        if not self.concrete:
            parts.append(LDict([(C("type"), C("map_value"))], fresh=False))
        return LDict([(C(self.key), LList(parts, fresh=False))], fresh=False)


def spell(tok):
    return [tok, tok.upper(), tok.title()]


def family():
    out = [("path", True, ()), ("PATH", True, ()), ("Path", False, ())]
    for d, dm in DATUM.items():
        for sp in spell(d):
            out.append((f"path.{sp}", True, (dm,)))
    for m, mm in MULTI.items():
        for sp in spell(m):
            out.append((f"path.{sp}", False, (mm,)))
    for d, dm in list(DATUM.items())[:4]:
        for m, mm in MULTI.items():
            out.append((f"path.{d}.{m}", False, (dm, mm)))
            out.append((f"Path.{m.upper()}.{d.title()}", False, (mm, dm)))
    return out


def Expected(spec, mods):
    parts = [MapValue() if isinstance(p, dict) else p for p in next(iter(spec.values()))]
    p = DataPath(*parts)
    for m in mods:
        p = getattr(p, m)()
    return p


contract(
    "valida.datapath:DataPath.from_spec#family",
    params=dict(cls=Const(DataPath)),
    variants=[dict(spec=PathSpec(k, c), _mods=Const(m)) for k, c, m in family()],
    ensures=lambda spec, result, _mods:
        result == Expected(spec, _mods),
    raises={},
    serves=["C10", "C16"],
)
