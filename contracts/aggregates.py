"""Aggregates of a validation result (C06): overall validity is the conjunction of the rules' verdicts, the failure count
the sum of theirs, the tested count the number of tested rules - for results over 0..3 rule tests with arbitrary
verdicts and failure tuples, and the same for every order of the rule tests (stated for the rotated
order: conjunction and sums do not depend on it)."""
from pyvc.contracts import contract, Obj, Shape, Bool, TupleOf, AnyVal
from pyvc.sym import LTuple
from spec.prims import same
from valida.rules import RuleTest
from valida.schema import ValidatedData


class Tests(Shape):
    def __init__(self, n):
        self.n = n

    def make(self, ip, name):
        return LTuple([Obj(RuleTest, _is_valid=Bool(), _tested=Bool(), _failures=TupleOf()).make(ip, f"{name}{i}") for i in range(self.n)])


def VD(n):
    return Obj(ValidatedData, rule_tests=Tests(n), data=AnyVal(), schema=AnyVal(), cast_data=AnyVal())


def conj(ts):
    r = True
    for t in ts:
        r = r and t._is_valid
    return r


def total_failures(ts):
    n = 0
    for t in ts:
        n = n + len(t._failures)
    return n


def total_tested(ts):
    n = 0
    for t in ts:
        n = n + (1 if t._tested else 0)
    return n


contract("valida.schema:ValidatedData.is_valid", variants=[dict(self=VD(n)) for n in range(4)],
         ensures=lambda self, result:
             same(result, conj(self.rule_tests)) and same(result, conj(self.rule_tests[1:] + self.rule_tests[:1])),
         raises={}, serves=["C06"])
contract("valida.schema:ValidatedData.num_failures", variants=[dict(self=VD(n)) for n in range(4)],
         ensures=lambda self, result:
             result == total_failures(self.rule_tests) and result == total_failures(self.rule_tests[1:] + self.rule_tests[:1]),
         raises={}, serves=["C06"])
contract("valida.schema:ValidatedData.num_rules_tested", variants=[dict(self=VD(n)) for n in range(4)],
         ensures=lambda self, result:
             result == total_tested(self.rule_tests) and result == total_tested(self.rule_tests[1:] + self.rule_tests[:1]),
         raises={}, serves=["C06"])
