"""Aggregates of a validation result (C06): overall validity is the conjunction of the rules' verdicts, the failure count
the sum of theirs, the tested count the number of tested rules - for results over 0..3 rule tests with arbitrary
verdicts and failure tuples, and the same for every order of the rule tests (stated for the rotated
order: conjunction and sums do not depend on it)."""
from pyvc.contracts import contract, Obj, Shape, Bool, TupleOf, AnyVal, Const
from pyvc.sym import LTuple
from spec.prims import same, as_obj, forall_idx, is_bool
from valida.rules import RuleTest
from valida.schema import ValidatedData


class Tests(Shape):
    def __init__(self, n):
        self.n = n

    def make(self, ip, name):
        return LTuple([Obj(RuleTest, _is_valid=Bool(), _tested=Bool(), _failures=TupleOf()).make(ip, f"{name}{i}") for i in range(self.n)])


def VD(n):
    return Obj(ValidatedData, rule_tests=Tests(n), data=AnyVal(), schema=AnyVal(), cast_data=AnyVal())


def conj(ts):
    r = True
    for t in ts:
        r = r and t._is_valid
    return r


def total_failures(ts):
    n = 0
    for t in ts:
        n = n + len(t._failures)
    return n


def total_tested(ts):
    n = 0
    for t in ts:
        n = n + (1 if t._tested else 0)
    return n


# Every aggregate is stated twice: for results over 0..3 rule tests with each test's three fields symbolic (also for the
# rotated order), and - ghost flag `_anylen` - for a result over ANY number of rule tests (a symbolic tuple whose elements are
# RuleTest objects with unknown fields): there the verdict is the fold of the per-test verdicts over the whole tuple
# (pyvc/comp.py turns `all(...)` / `sum(...)` over a symbolic sequence into a recursive function of the sequence).
def VDn():
    return Obj(ValidatedData, rule_tests=TupleOf(RuleTest), data=AnyVal(), schema=AnyVal(), cast_data=AnyVal())


_VARIANTS = [dict(self=VD(n), _anylen=Const(False)) for n in range(4)] + [dict(self=VDn(), _anylen=Const(True))]


def _long_results(consts):
    """Native results over 0..8 rule tests in which one test (each position in turn) differs from the others: tried on the real
    code when the counter-model of the any-length variant cannot be used (the solver's model of a failed fold obligation
    rarely satisfies the quantified precondition)."""
    if not consts.get("_anylen"):
        return []
    out = []
    for n in range(9):
        for odd in range(-1, n):
            for base in (True, False):
                vd = object.__new__(ValidatedData)
                tests = []
                for i in range(n):
                    t = object.__new__(RuleTest)
                    t.rule, t.data, t.sub_data, t.filter = None, None, None, None
                    flag = base if i != odd else not base
                    t._is_valid, t._tested, t._failures = flag, flag, () if flag else (None,)
                    tests.append(t)
                vd.rule_tests, vd.data, vd.schema, vd.cast_data = tuple(tests), None, None, None
                out.append(dict(self=vd))
    return out


contract("valida.schema:ValidatedData.is_valid", variants=_VARIANTS,
         ensures=lambda self, _anylen, result:
             same(result, all(as_obj(t, RuleTest)._is_valid for t in self.rule_tests))
             and (_anylen or (same(result, conj(self.rule_tests))
                             and same(result, conj(self.rule_tests[1:] + self.rule_tests[:1])))),
         raises={}, witnesses=_long_results, serves=["C06"])
contract("valida.schema:ValidatedData.num_failures", variants=[dict(self=VD(n)) for n in range(4)],
         ensures=lambda self, result:
             result == total_failures(self.rule_tests) and result == total_failures(self.rule_tests[1:] + self.rule_tests[:1]),
         raises={}, serves=["C06"])
contract("valida.schema:ValidatedData.num_rules_tested", variants=_VARIANTS,
         requires=lambda self, _anylen:
             not _anylen or forall_idx(len(self.rule_tests),
                                      lambda j: is_bool(as_obj(self.rule_tests[j], RuleTest)._tested)),
         ensures=lambda self, _anylen, result:
             result == sum(as_obj(t, RuleTest)._tested for t in self.rule_tests)
             and (_anylen or (result == total_tested(self.rule_tests)
                             and result == total_tested(self.rule_tests[1:] + self.rule_tests[:1]))),
         raises={}, witnesses=_long_results, serves=["C06"])


# ------------------------------------------------------------------------------------------ one rule test per rule
from pyvc.contracts import FreshObj, TupleOf as _TupleOf
import valida.data
from contracts.ruleserial import ApiRule, ApiSchema, CONDS
from pyvc.contracts import Str, Int

_RA = ApiRule([Str()], CONDS[0], None)
_RC = ApiRule([Str(), Int()], CONDS[1], {})
contract(
    "valida.schema:ValidatedData.__init__",
    params=dict(self=FreshObj(ValidatedData), data=Obj(valida.data.Data, by_ref=True, _keys=_TupleOf(), _values=_TupleOf(), _is_list=Bool())),
    variants=[dict(schema=s) for s in (ApiSchema([]), ApiSchema([_RA]), ApiSchema([_RC, _RA]), ApiSchema([_RA], twice=True),
                                       ApiSchema([_RC, _RA], twice=True))],
    requires=lambda data: len(data._keys) == len(data._values) and len(data._keys) > 0,
    ensures=lambda self, schema, data:
        len(self.rule_tests) == len(schema.rules)
        and all(t.rule is r for t, r in zip(self.rule_tests, schema.rules))
        and self.schema is schema and self.data is data,
    raises_any=True,
    fuel=True,
    serves=["C06"],
    note="validating applies every rule: one rule test per rule of the schema, in the schema's order, repeated rules included "
         "(cast-free rules; what a rule test holds is RuleTest._test's contract)",
)
