"""Entry points of condition evaluation (C01 / C07): ConditionLike.filter on a raw list / mapping wraps it in a Data
object (contracts/datawrap.py) and filters that (contracts/conditions.py); Key / Index conditions refuse the wrong
container kind with TypeError."""
from pyvc.contracts import contract, ListVal, DictVal, Const
from spec.prims import same, forall_idx, is_fresh, fst, snd
from spec.meaning import Meaning
import valida.conditions as cnds
import valida.data
from contracts.conditions import LeafShape

contract(
    "valida.conditions:ConditionLike.filter",
    variants=[dict(self=LeafShape(c), data=d) for c in (cnds.Value, cnds.ValueLength, cnds.ValueDataType, cnds.NullCondition)
              for d in (ListVal(), DictVal())],
    params=dict(data_has_paths=Const(False), source_data=Const(None)),
    ensures=lambda self, data, result:
        type(result) is valida.data.FilteredData and len(result.result) == len(data)
        and forall_idx(len(data), lambda j: same(result.result[j], Meaning(self, (data[j] if isinstance(data, list) else list(data.values())[j])))),
    raises={"TypeError": lambda data: len(data) == 0},
    serves=["C01", "C07"],
)


# ------------------------------------------------------------------------------------------ key / index conditions
from pyvc.contracts import Obj, TupleOf, Bool
from contracts.datawrap import Scalar


def WrappedData(is_list):
    return Obj(valida.data.Data, _keys=TupleOf(), _values=TupleOf(), _is_list=Const(is_list))


contract(
    "valida.conditions:KeyLike.filter",
    variants=[dict(self=LeafShape(c), data=d, _kind=Const(k)) for c in (cnds.Key, cnds.KeyLength, cnds.KeyDataType)
              for k, d in (("dict", DictVal()), ("list", ListVal()), ("scalar", Scalar()), ("wrapped-map", WrappedData(False)),
                           ("wrapped-list", WrappedData(True)))],
    params=dict(data_has_paths=Const(False), source_data=Const(None)),
    requires=lambda data, _kind: not _kind.startswith("wrapped") or len(data._keys) == len(data._values),
    ensures=lambda self, data, result, _kind:
        type(result) is valida.data.FilteredData
        and (len(result.result) == len(data) and forall_idx(len(data), lambda j:
                                                            same(result.result[j], Meaning(self, list(data.keys())[j])))
             if _kind == "dict" else
             len(result.result) == len(data._keys) and forall_idx(len(data._keys), lambda j:
                                                                  same(result.result[j], Meaning(self, data._keys[j])))),
    raises={"TypeError": lambda data, _kind: _kind in ("list", "scalar", "wrapped-list") or (_kind == "dict" and len(data) == 0)},
    serves=["C01", "C03", "C07"],
    note="a key condition filters the keys of a mapping and refuses anything else with TypeError",
)
contract(
    "valida.conditions:IndexLike.filter",
    variants=[dict(self=LeafShape(cnds.Index), data=d, _kind=Const(k))
              for k, d in (("dict", DictVal()), ("list", ListVal()), ("scalar", Scalar()), ("wrapped-map", WrappedData(False)),
                           ("wrapped-list", WrappedData(True)))],
    params=dict(data_has_paths=Const(False), source_data=Const(None)),
    requires=lambda data, _kind: not _kind.startswith("wrapped") or len(data._keys) == len(data._values),
    ensures=lambda self, data, result, _kind:
        type(result) is valida.data.FilteredData
        and (len(result.result) == len(data) and forall_idx(len(data), lambda j: same(result.result[j], Meaning(self, j)))
             if _kind == "list" else
             len(result.result) == len(data._keys) and forall_idx(len(data._keys), lambda j:
                                                                  same(result.result[j], Meaning(self, data._keys[j])))),
    raises={"TypeError": lambda data, _kind: _kind in ("dict", "scalar", "wrapped-map") or (_kind == "list" and len(data) == 0)},
    serves=["C01", "C03", "C07"],
    note="an index condition filters the positions of a list and refuses anything else with TypeError",
)


# ------------------------------------------------------------------------------------------ the rule-test entry (C05)
contract(
    "valida.conditions:ConditionLike.filter#paths",
    variants=[dict(self=LeafShape(c)) for c in (cnds.Value, cnds.ValueLength, cnds.ValueDataType, cnds.NullCondition)],
    params=dict(data=ListVal(), data_has_paths=Const(True), source_data=Const(None)),
    requires=lambda data:
        len(data) > 0 and forall_idx(len(data), lambda j: isinstance(data[j], tuple) and len(data[j]) == 2),
    ensures=lambda self, data, result:
        type(result) is valida.data.FilteredData
        and len(result.result) == len(data) and len(result.concrete_paths) == len(data) and len(result.source._values) == len(data)
        and forall_idx(len(data), lambda j: same(result.result[j], Meaning(self, fst(data[j])))
                       and same(result.source._values[j], fst(data[j])) and same(result.concrete_paths[j], snd(data[j]))),
    raises={},
    fuel=True,
    serves=["C05"],
    note="what RuleTest._test calls: the leaf case of the `cond.filter` interface (one verdict per selected node = the "
         "condition's meaning on the node; values and concrete paths split and aligned)",
)
