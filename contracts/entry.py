"""Entry points of condition evaluation (C01 / C07): ConditionLike.filter on a raw list / mapping wraps it in a Data
object (contracts/datawrap.py) and filters that (contracts/conditions.py); Key / Index conditions refuse the wrong
container kind with TypeError."""
from pyvc.contracts import contract, ListVal, DictVal, Const
from spec.prims import same, forall_idx, is_fresh
from spec.meaning import Meaning
import valida.conditions as cnds
import valida.data
from contracts.conditions import LeafShape

contract(
    "valida.conditions:ConditionLike.filter",
    variants=[dict(self=LeafShape(c), data=d) for c in (cnds.Value, cnds.ValueLength, cnds.ValueDataType, cnds.NullCondition)
              for d in (ListVal(), DictVal())],
    params=dict(data_has_paths=Const(False), source_data=Const(None)),
    ensures=lambda self, data, result:
        type(result) is valida.data.FilteredData and len(result.result) == len(data)
        and forall_idx(len(data), lambda j: same(result.result[j], Meaning(self, (data[j] if isinstance(data, list) else list(data.values())[j])))),
    raises={"TypeError": lambda data: len(data) == 0},
    serves=["C01", "C07"],
)
