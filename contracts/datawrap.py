"""The Data wrapper (C03: "a part that does not apply to a node - wrong container kind, scalar, empty container -
matches nothing rather than raising" rests on Data refusing such nodes with TypeError and nothing else)."""
from pyvc.contracts import contract, AnyVal, JsonVal, FreshObj, Obj, TupleOf, Bool, ListVal, DictVal, Shape
from spec.prims import same, forall_idx
import valida.data


class Scalar(Shape):
    """A document node that is neither a list nor a mapping."""

    def make(self, ip, name):
        import z3
        from pyvc import vals as V
        v = JsonVal().make(ip, name)
        ip.path.assume(z3.Not(z3.Or(V.is_list(v.t), V.is_dict(v.t))))
        return v


contract(
    "valida.data:Data.__init__",
    params=dict(self=FreshObj(valida.data.Data)),
    variants=[dict(data=ListVal()), dict(data=DictVal()), dict(data=Scalar())],
    ensures=lambda self, data:
        self._is_list == isinstance(data, list)
        and len(self._keys) == len(data) and len(self._values) == len(data)
        and (forall_idx(len(data), lambda j: same(self._values[j], data[j]) and same(self._keys[j], j)) if isinstance(data, list)
             else forall_idx(len(data), lambda j: same(self._keys[j], list(data.keys())[j]) and same(self._values[j], list(data.values())[j]))),
    raises={"TypeError": lambda data: not isinstance(data, (list, dict)) or not data},
    init_fields=dict(_keys=TupleOf(), _values=TupleOf(), _is_list=Bool()),
    serves=["C03", "C01", "C07"],
    note="wraps a non-empty list / mapping as aligned key and value sequences in document order; anything else: TypeError",
)
