#!/bin/bash
# setup_cmd: build the overlay venv (python 3.12 = the repo's interpreter, + z3-solver from the offline
# wheelhouse, + /venv's site-packages for the repo's own dependencies).  Offline; idempotent.
set -e
HERE="$(cd "$(dirname "$0")" && pwd)"
cd "$HERE"
if [ ! -x .venv/bin/python ] || ! .venv/bin/python -c "import z3, ruamel.yaml" 2>/dev/null; then
  rm -rf .venv
  /venv/bin/python -m venv .venv
  PIP_NO_INDEX=1 .venv/bin/pip install -q --no-index --find-links /opt/veriftools/wheels z3-solver
  echo "import site; site.addsitedir('/venv/lib/python3.12/site-packages')" > .venv/lib/python3.12/site-packages/zz_venv.pth
fi
.venv/bin/python -c "import z3, ruamel.yaml; print('setup ok: z3', z3.get_version_string())"
