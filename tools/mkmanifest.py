#!/usr/bin/env python3
"""Regenerates MANIFEST.json from the table below (run by hand after changing a claim)."""
import json, os
HERE = os.path.dirname(os.path.dirname(os.path.abspath(__file__)))
props = [json.loads(l) for l in open(os.path.join(HERE, "properties.jsonl"))]
CLAIMS = json.load(open(os.path.join(HERE, "tools", "claims.json")))
BASE = "cd /repo && /venv/bin/python -m pytest -ra -q -p no:cacheprovider --timeout=900 --continue-on-collection-errors"
checks = []
for p in props:
    c = CLAIMS[p["id"]]
    checks.append({
        "property_id": p["id"],
        "quick_cmd": f"./check {p['id']} --tier quick",
        "thorough_cmd": f"./check {p['id']} --tier thorough",
        "evidence_file": f"/verif/evidence/{p['id']}.json",
        "replay_cmd_template": f"./check {p['id']} --replay {{path}}",
        "engine": "pyvc" if c["category"] == "proof" else "vf-bounded",
        "level_claimed": {"category": c["category"], "text": c["text"], "design_ref": c.get("design_ref", "DESIGN.md §8 " + p["id"])},
        "level_note": c["note"],
        "technique": c["technique"],
    })
m = {
    "version": 1,
    "setup_cmd": "bash setup.sh",
    "hooks": {"guard": "VALIDA_VERIF", "enable": "none: no hook or instrumentation exists in /repo; contracts live in the /verif sidecar and the checks read /repo's working tree as it is",
              "baseline_off_cmd": BASE, "source_commits": [], "add_only": True},
    "engines": [
        {"name": "pyvc", "path": "/verif/pyvc", "serves_properties": sorted(k for k, v in CLAIMS.items() if v["category"] == "proof"),
         "kind_free_text": "contract-based deductive verifier for a Python subset: symbolic executor over the ast of /repo/valida/*.py (re-read every run), sidecar contracts, loop invariants, VCs discharged by z3 5.1 (python API)"},
        {"name": "vf-bounded", "path": "/verif/vf", "serves_properties": [p["id"] for p in props],
         "kind_free_text": "bounded stand-in: the executable contracts/oracle evaluated on generated witnesses against the real code; labelled bounded, never counted as proved; also the replay target"},
    ],
    "checks": checks,
    "not_applicable": [],
    "notes": "See DESIGN.md. Exit 0 held / 1 violation (VIOLATION line + replay file) / 3 checker fault. known_findings.json lists fixed and known defects.",
}
json.dump(m, open(os.path.join(HERE, "MANIFEST.json"), "w"), indent=1)
print("MANIFEST.json written:", len(checks), "checks")
