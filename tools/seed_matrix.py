#!/usr/bin/env python3
"""Run every seeded change (on a scratch copy of /repo/valida, never in /repo) against the check of the property it
breaks; record which part of the check (deductive obligations / bounded clauses) reports it in seeded/<name>/meta.json
and seeded/MATRIX.md.  usage: seed_matrix.py [names...]"""
import json, os, shutil, subprocess, sys, tempfile, concurrent.futures as cf
HERE = os.path.dirname(os.path.dirname(os.path.abspath(__file__)))
names = sys.argv[1:] or sorted(os.listdir(os.path.join(HERE, "seeded")))
names = [n for n in names if os.path.isdir(os.path.join(HERE, "seeded", n))]

def one(name):
    d = os.path.join(HERE, "seeded", name)
    meta = json.load(open(os.path.join(d, "meta.json")))
    prop = meta["breaks_property"]
    tmp = tempfile.mkdtemp(prefix="seedmx_")
    try:
        shutil.copytree("/repo/valida", os.path.join(tmp, "valida"))
        r = subprocess.run(["git", "apply", "--unsafe-paths", f"--directory={tmp}", os.path.join(d, "patch.diff")], cwd=tmp, capture_output=True, text=True)
        if r.returncode != 0:
            r = subprocess.run(f"patch -s -p1 < {os.path.join(d, 'patch.diff')}", shell=True, cwd=tmp, capture_output=True, text=True)
            if r.returncode != 0:
                return name, prop, None, "patch does not apply to the current tree"
        env = dict(os.environ, VALIDA_SRC=tmp, PYVC_FUNCTION_BUDGET_S="150")
        out = subprocess.run([os.path.join(HERE, "check"), prop], cwd=HERE, env=env, capture_output=True, text=True, timeout=1500)
        reps = [l.split("replay=")[1].split()[0] for l in out.stdout.splitlines() if l.startswith("VIOLATION")]
        obl, bnd = [], []
        for p in reps:
            try:
                rec = json.load(open(p))
            except Exception:
                continue
            if rec.get("kind") == "obligation":
                obl.append(rec.get("name", "?").split("@")[0])
            else:
                bnd.append(f"{rec.get('clause')}:{rec.get('sig')}")
        det = {"exit": out.returncode, "obligations": sorted(set(obl))[:6], "bounded": sorted(set(bnd))[:6]}
        return name, prop, det, None
    finally:
        shutil.rmtree(tmp, ignore_errors=True)

rows = []
with cf.ThreadPoolExecutor(2) as ex:
    for name, prop, det, err in ex.map(one, names):
        mp = os.path.join(HERE, "seeded", name, "meta.json")
        meta = json.load(open(mp))
        meta["detected_by"] = det if det else {"error": err}
        json.dump(meta, open(mp, "w"), indent=1)
        rows.append((name, prop, det, err))
        print(name, prop, det or err, flush=True)
with open(os.path.join(HERE, "seeded", "MATRIX.md"), "w") as fh:
    fh.write("# Which check reports which seeded change\n\n(regenerate with tools/seed_matrix.py; every change was verified to pass the 266 tests and to fail its demo)\n\n"
             "| seed | property | exit | failed obligations (deductive) | bounded clauses |\n|---|---|---|---|---|\n")
    all_rows = []
    for name in sorted(os.listdir(os.path.join(HERE, "seeded"))):
        mp = os.path.join(HERE, "seeded", name, "meta.json")
        if os.path.exists(mp):
            meta = json.load(open(mp))
            det = meta.get("detected_by") or {}
            all_rows.append((name, meta["breaks_property"], det if "exit" in det else None, det.get("error", "not run")))
    for name, prop, det, err in all_rows:
        if det:
            fh.write(f"| {name} | {prop} | {det['exit']} | {'<br>'.join(det['obligations']) or '-'} | {'<br>'.join(det['bounded']) or '-'} |\n")
        else:
            fh.write(f"| {name} | {prop} | - | {err} | |\n")
