#!/bin/bash
# usage: mut.sh <patch file | sed-expr:file> <prop> [check args]   run a check against a scratch copy of /repo with a change applied
P=$1; prop=$2; shift 2
[ -f "$P" ] && P=$(realpath "$P")
D=$(mktemp -d /tmp/mut_XXXXXX)
cp -r /repo/valida $D/valida
if [ -f "$P" ]; then (cd $D && git apply --unsafe-paths -p1 --directory=. "$P" 2>/dev/null || patch -s -p1 < "$P") || { echo "patch failed"; rm -rf $D; exit 2; }
else expr="${P%%::*}"; file="${P##*::}"; sed -i "$expr" $D/valida/$file; diff -q /repo/valida/$file $D/valida/$file >/dev/null && echo "WARNING: sed changed nothing"; fi
(cd /verif && VALIDA_SRC=$D ./check $prop "$@" 2>&1 | grep -v "^  clause=" | tail -${TAIL:-6})
rm -rf $D
