#!/usr/bin/env python3
"""Verify a seeded change (patch.diff + demo.py) on a scratch worktree of /repo's HEAD, then keep it under
/verif/seeded/<name>/ with meta.json.  usage: seed_verify.py <name> <property> <dir with patch.diff demo.py notes.md>"""
import json, os, shutil, subprocess, sys, tempfile
name, prop, src = sys.argv[1:4]
HERE = os.path.dirname(os.path.dirname(os.path.abspath(__file__)))
wt = tempfile.mkdtemp(prefix="seedchk_")
os.rmdir(wt)
def sh(cmd, **kw):
    return subprocess.run(cmd, shell=True, capture_output=True, text=True, **kw)
try:
    r = sh(f"git -C /repo worktree add -q --detach {wt} HEAD")
    assert r.returncode == 0, r.stderr
    demo = os.path.join(src, "demo.py")
    text = open(demo).read()
    r0 = sh(f"cd {wt} && PYTHONPATH={wt} /venv/bin/python {demo}")
    ap = sh(f"git -C {wt} apply {os.path.join(src, 'patch.diff')}")
    if ap.returncode != 0:
        print(f"{name}: PATCH DOES NOT APPLY: {ap.stderr.strip()[:200]}"); sys.exit(2)
    t = sh(f"cd {wt} && /venv/bin/python -m pytest -q -p no:cacheprovider 2>&1 | tail -1")
    r1 = sh(f"cd {wt} && PYTHONPATH={wt} /venv/bin/python {demo}")
    ok = r0.returncode == 0 and r1.returncode != 0 and "266 passed" in t.stdout
    print(f"{name}: demo clean rc={r0.returncode} patched rc={r1.returncode} tests: {t.stdout.strip()} -> {'OK' if ok else 'REJECT'}")
    if ok:
        dst = os.path.join(HERE, "seeded", name)
        os.makedirs(dst, exist_ok=True)
        for f in ("patch.diff", "demo.py", "notes.md"):
            if os.path.exists(os.path.join(src, f)):
                shutil.copy(os.path.join(src, f), dst)
        # demos refer to their original worktree path only through PYTHONPATH; make it location independent
        head = sh("git -C /repo rev-parse --short HEAD").stdout.strip()
        meta = {"name": name, "breaks_property": prop, "repo_head_when_verified": head,
                "needs_to_manifest": open(os.path.join(src, "notes.md")).read()[:1500] if os.path.exists(os.path.join(src, "notes.md")) else "",
                "verified": {"demo_clean_rc": r0.returncode, "demo_patched_rc": r1.returncode, "tests_with_patch": t.stdout.strip(),
                             "how": "scratch worktree of /repo HEAD: demo on clean tree, git apply patch.diff, full pytest, demo again"},
                "detected_by": None}
        json.dump(meta, open(os.path.join(dst, "meta.json"), "w"), indent=1)
    sys.exit(0 if ok else 1)
finally:
    sh(f"git -C /repo worktree remove --force {wt}")
