#!/bin/bash
# usage: seed_check.sh <seed name> [props...]  : apply the seeded patch to /repo, run the checks, undo.
cd /verif
name=$1; shift
props="$@"
[ -z "$props" ] && props=$(python3 -c "import json;print(json.load(open('seeded/$name/meta.json'))['breaks_property'])")
git -C /repo diff --quiet || { echo "/repo not clean"; exit 2; }
git -C /repo apply /verif/seeded/$name/patch.diff || { echo "$name: patch does not apply"; exit 2; }
for p in $props; do
  out=$(./check $p --tier ${TIER:-quick} 2>&1); rc=$?
  nv=$(echo "$out" | grep -c "^VIOLATION")
  echo "$name $p rc=$rc violations=$nv :: $(echo "$out" | grep -E 'clause=|obligation=' | head -3 | cut -c1-200 | tr '\n' '|')"
done
git -C /repo checkout -- .
