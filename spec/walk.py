"""What resolving a data path means (C03/C04), written from the property statements: walking the path part by part.

A part `p` applied to a node gives the children it matches (PartVals) and their keys / indices (PartKeys), in document
order, each once; a part that does not apply to a node (wrong container kind, scalar, empty container) matches nothing.
The frontier after k parts is the concatenation, over the nodes of the frontier after k - 1 parts in order, of what
part k matches in each; the concrete path of a matched child is its parent's concrete path extended by its key."""
from pyvc.specfun import spec_rec
from spec.prims import PartApplies, PartVals, PartKeys


def FlatVals(part, nodes, j):
    """Children matched by `part` in the first j nodes, in order."""
    if j <= 0:
        return []
    return FlatVals(part, nodes, j - 1) + (PartVals(part, nodes[j - 1]) if PartApplies(part, nodes[j - 1]) else [])


spec_rec(FlatVals, part="val", nodes="list", j="int", returns="list")


def FlatPaths(part, nodes, paths, first, j):
    """Their concrete paths: the parent's path (paths[i] for nodes[i]; empty for the root) extended by the child's key."""
    if j <= 0:
        return []
    if not PartApplies(part, nodes[j - 1]):
        return FlatPaths(part, nodes, paths, first, j - 1)
    if first:
        return FlatPaths(part, nodes, paths, first, j - 1) + [[i] for i in PartKeys(part, nodes[j - 1])]
    return FlatPaths(part, nodes, paths, first, j - 1) + [paths[j - 1] + [i] for i in PartKeys(part, nodes[j - 1])]


spec_rec(FlatPaths, part="val", nodes="list", paths="list", first="bool", j="int", returns="list")


def FrontVals(parts, root, k):
    """The nodes reached after the first k parts of the path, from the document root."""
    if k <= 0:
        return [root]
    prev = FrontVals(parts, root, k - 1)
    return FlatVals(parts[k - 1], prev, len(prev))


spec_rec(FrontVals, parts="list", root="val", k="int", returns="list")


def FrontPaths(parts, root, k):
    """Their concrete paths (lists of keys / indices from the root)."""
    if k <= 0:
        return []
    prev = FrontVals(parts, root, k - 1)
    return FlatPaths(parts[k - 1], prev, FrontPaths(parts, root, k - 1), k == 1, len(prev))


spec_rec(FrontPaths, parts="list", root="val", k="int", returns="list")


def Datum(dt, vals):
    """The datum modifier applied to each selected node."""
    from valida.datapath import DataPathDatumType as DT
    if dt is DT.DTYPE:
        return [type(i) for i in vals]
    if dt is DT.LENGTH:
        return [len(i) for i in vals]
    if dt is DT.MAP_KEYS:
        return [list(i.keys()) for i in vals]
    if dt is DT.MAP_VALUES:
        return [list(i.values()) for i in vals]
    return vals


def Resolved(parts, is_concrete, dt, mt, root, return_paths):
    """What resolving the path against document `root` returns (the property statements C03/C04)."""
    from valida.datapath import DataPathMultiType as MT
    n = len(parts)
    if n == 0:
        d = Datum(dt, [root])[0]
        return (d, ()) if return_paths else d
    sel = FrontVals(parts, root, n)
    if len(sel) == 0:
        return None if is_concrete else []
    vals = Datum(dt, sel)
    items = [(i, tuple(j)) for i, j in zip(vals, FrontPaths(parts, root, n))] if return_paths else vals
    if mt is MT.FIRST or mt is MT.SINGLE:
        return items[0]
    if mt is MT.LAST:
        return items[-1]
    if mt is MT.NONE and is_concrete:
        return items[0]
    return items


def CountFalse(flags, k):
    """How many of the first k flags are false."""
    if k <= 0:
        return 0
    return CountFalse(flags, k - 1) + (0 if flags[k - 1] else 1)


spec_rec(CountFalse, flags="list", k="int", returns="int")


def PathExists(rule_test):
    """The rule's path selected something (C05: otherwise the rule is valid and reported as not tested)."""
    if rule_test.rule.path.is_concrete:
        return rule_test.sub_data[0] is not None
    return len(rule_test.sub_data) > 0


def FailIdx(flags, k):
    """The positions, among the first k, whose flag is false, in order."""
    if k <= 0:
        return []
    return FailIdx(flags, k - 1) + ([] if flags[k - 1] else [k - 1])


spec_rec(FailIdx, flags="list", k="int", returns="list")
