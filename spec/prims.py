"""Primitives of the contract language.  Natively they are plain Python (used by replay / the bounded
stand-in); under the prover the interpreter recognises them by name and gives them their logical meaning."""


def same(a, b):
    """Structural identity of two values (type-exact: True is not 1).  Prover: z3 equality of the terms."""
    return type(a) is type(b) and a == b


def is_bool(x):
    return isinstance(x, bool)


def Raises(thunk, kind):
    """Does evaluating thunk() raise an exception of class `kind` (name)?  Prover: the disjunction of the path
    conditions of thunk's raising paths of that class."""
    try:
        thunk()
    except Exception as e:
        return any(c.__name__ == kind for c in type(e).__mro__)
    return False


def implies(a, b):
    return (not a) or b
