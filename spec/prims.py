"""Primitives of the contract language.  Natively they are plain Python (used by replay / the bounded
stand-in); under the prover the interpreter recognises them by name and gives them their logical meaning."""


def same(a, b):
    """Structural identity of two values (type-exact: True is not 1).  Prover: z3 equality of the terms."""
    return type(a) is type(b) and a == b


def is_bool(x):
    return isinstance(x, bool)


def Raises(thunk, kind):
    """Does evaluating thunk() raise an exception of class `kind` (name)?  Prover: the disjunction of the path
    conditions of thunk's raising paths of that class."""
    try:
        thunk()
    except Exception as e:
        return any(c.__name__ == kind for c in type(e).__mro__)
    return False


def implies(a, b):
    return (not a) or b


def is_fresh(obj):
    """The object was created by the call under contract (not an alias of something that existed before).
    Natively this cannot be observed after the fact and is True; the prover checks the allocation site."""
    return True


def Binds(func, args, kwargs):
    """func(datum, *args, **kwargs) binds to func's signature (no TypeError from argument passing)."""
    import inspect
    try:
        inspect.signature(func).bind(None, *args, **kwargs)
    except TypeError:
        return False
    return True


def forall_idx(n, pred):
    """pred(j) for every 0 <= j < n."""
    return all(pred(j) for j in range(n))


def ApplyCallable(func, datum, args, kwargs):
    """func(datum, *args, **kwargs): the call a prepared condition callable makes."""
    return func(datum, *args, **kwargs)


def is_prefix(a, b):
    """Sequence a is a prefix of sequence b."""
    return list(b[:len(a)]) == list(a)


def IsJson(x):
    """x is pure JSON-compatible data: it survives json.dumps / json.loads unchanged (type-exactly)."""
    import json
    try:
        y = json.loads(json.dumps(x))
    except (TypeError, ValueError):
        return False

    def teq(a, b):
        if type(a) is not type(b):
            return False
        if isinstance(a, dict):
            return list(a) == list(b) and all(teq(a[k], b[k]) for k in a)
        if isinstance(a, list):
            return len(a) == len(b) and all(teq(i, j) for i, j in zip(a, b))
        return a == b
    return teq(x, y)


def SemAt(cond, data, j, source_data=None):
    """What condition `cond` gives for item j of the Data object `data` (natively: by filtering)."""
    return cond._filter(data, False, source_data=source_data).result[j]



def _part_filter(part, node):
    try:
        return part.filter(node)
    except TypeError:
        return None


def PartApplies(part, node):
    """The path part applies to the node (it is a container of the part's kind): filtering it does not raise TypeError."""
    return _part_filter(part, node) is not None


def PartVals(part, node):
    """The children of `node` the part matches, in document order."""
    return list(_part_filter(part, node).data)


def PartKeys(part, node):
    """Their keys / indices, aligned with PartVals."""
    return list(_part_filter(part, node).keys)


def all_lists(xs):
    """Every element of the sequence is a list."""
    return all(isinstance(x, list) for x in xs)


def as_obj(x, cls):
    """x, known to be an instance of cls (lets a contract read the attributes of an element of a sequence)."""
    return x


def fst(pair):
    """First component of a (value, path) pair."""
    return pair[0]


def snd(pair):
    """Second component of a (value, path) pair."""
    return pair[1]


def PathSel(path, data):
    """What the data path selects in the document (values only)."""
    return path.get_data(data, return_paths=False)
