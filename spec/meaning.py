"""The documented meaning of a leaf condition on one item (DESIGN.md §3 / Appendix C), written from the property
statement C01: the comparison the condition names, applied to the item's datum after its pre-processor; an item on
which the pre-processor or the comparison is not defined does not satisfy the condition.

These functions run natively on real valida objects (replay, bounded stand-in) and are interpreted symbolically by the
prover (pyvc), which expands them in place."""
from spec.prims import ApplyCallable


def Items(c, data):
    """The data a condition looks at: the keys (indices for a list) or the values of a Data object."""
    return getattr(data, type(c).DATUM_TYPE.value)()


def PreErr(c, x):
    """The pre-processor (len / type) is not defined on x."""
    p = type(c).PRE_PROCESSOR
    if p is None:
        return False
    try:
        p(x)
    except TypeError:
        return True
    return False


def Pre(c, x):
    p = type(c).PRE_PROCESSOR
    if p is None:
        return x
    return p(x)


def CallErr(c, x):
    """The comparison is not defined on the (pre-processed) datum: evaluating it raises."""
    if PreErr(c, x):
        return False
    try:
        ApplyCallable(c.callable.func, Pre(c, x), c.callable.args, c.callable.kwargs)
    except Exception:
        return True
    return False


def CallFalse(c, x):
    if PreErr(c, x):
        return False
    try:
        r = ApplyCallable(c.callable.func, Pre(c, x), c.callable.args, c.callable.kwargs)
    except Exception:
        return False
    return not r


def Meaning(c, x):
    """Does item datum x satisfy leaf condition c?"""
    if PreErr(c, x):
        return False
    try:
        r = ApplyCallable(c.callable.func, Pre(c, x), c.callable.args, c.callable.kwargs)
    except Exception:
        return False
    return bool(r)


def HasKind(cond, cls):
    """Some leaf of the condition tree `cond` is of class `cls`."""
    if hasattr(cond, "children"):
        return any(HasKind(c, cls) for c in cond.children)
    return isinstance(cond, cls)
