"""Evidence file writer (schema: /root/.vp/EVIDENCE.schema.json).  Every number is measured on this run."""
import json
import os

HERE = os.path.dirname(os.path.dirname(os.path.abspath(__file__)))

STANDING = [
    "bounded stand-in clauses are checked on generated witnesses only (bounds in coverage.bounded_clauses); "
    "they are labelled bounded and are not counted in obligations/discharged",
    "oracle (vf/oracle.py) written from the property statements; floats compared exactly as CPython does",
]


def write_evidence(prop, tier, seed, proof, bounded, known_lines, violations, faults, wall, selftest=None):
    os.makedirs(os.path.join(HERE, "evidence"), exist_ok=True)
    n_eval = sum(r["evaluations"] for r in bounded.values())
    n_dist = sum(r["distinct"] for r in bounded.values())
    cov = {
        "evaluations": n_eval,
        "distinct_nontrivial": n_dist,
        "rule": "bounded stand-in: witnesses (terms for documents / conditions / paths / rules / specs) generated "
                "from VERIF_SEED by vf/gen.py and the per-clause generators; distinct = distinct witness terms "
                "(JSON text); every witness exercises the real code through the clause, none is trivial by "
                "construction (each builds at least one valida object and calls the API under test)",
        "samples": [{"clause": n, "witness": r["sample"]} for n, r in bounded.items() if r["sample"] is not None][:4],
        "bounded_clauses": [{"clause": n, "statement": r["doc"], "evaluations": r["evaluations"],
                             "distinct_witnesses": r["distinct"], "failing_signatures": sorted(r["fails"]),
                             "wall_s": r["wall_s"],
                             "bound": "documents depth<=3 width<=3 over the atom set of vf/gen.py; condition trees "
                                      "depth<=3; paths <=3 parts; tier=" + tier} for n, r in bounded.items()],
        "known_findings": sorted(set(known_lines)),
    }
    level = "exploration"
    assumptions = list(STANDING)
    if proof and proof.get("obligations", 0) > 0:
        level = proof.get("level", "proof")
        cov.update({
            "obligations": proof["obligations"], "discharged": proof["discharged"],
            "checker_cmd": proof["checker_cmd"], "trusted_base": proof["trusted_base"],
            "functions_under_contract": proof["functions"], "by_backend": proof["by_backend"],
            "solver_s": proof["solver_s"], "slowest": proof["slowest"], "canaries": proof.get("canaries"),
            "undecided": proof.get("undecided", []), "undecided_count": len(proof.get("undecided", [])),
            "counting_rule": "obligations = verification conditions this run decided (all of them discharged unless a VIOLATION is "
                             "reported); undecided ones (solver gave no answer within its budget, or the path / function left the "
                             "verifier's subset) are listed under `undecided` and carried by the bounded stand-in",
            "obligation_samples": proof.get("samples", []),
            "failed_obligations": [o["name"] for o in proof["failed"]],
            "explanation": proof.get("explanation", ""),
        })
        if proof.get("second_opinion"):
            cov["second_opinion"] = proof["second_opinion"]
        if proof.get("engine_crosscheck"):
            cov["engine_crosscheck"] = dict(proof["engine_crosscheck"], what="comparison callables explored symbolically once, then their path "
                                            "conditions and results evaluated on concrete argument tuples and compared with CPython's outcome "
                                            "on the real function; `open` = the encoding deliberately leaves the case unspecified")
        assumptions += proof.get("assumptions", [])
    if selftest:
        cov["selftest"] = selftest
    try:
        claimed = json.load(open(os.path.join(HERE, "tools", "claims.json")))[prop]["category"]
    except Exception:
        claimed = level
    if claimed != level:
        # the level is the one claimed in MANIFEST.json; obligations discharged for a property claimed at a lower level
        # stay in the coverage as additional information
        level = claimed
    ev = {"property_id": prop, "tier": tier, "seed": seed, "level": level, "coverage": cov,
          "assumptions": assumptions, "wall_s": round(wall, 2), "violations": len(violations)}
    if faults:
        ev["coverage"]["checker_faults"] = [str(f)[:500] for f in faults[:5]]
    out_dir = os.path.join(HERE, "evidence")
    if os.environ.get("VALIDA_SRC", "/repo") != "/repo":
        # a run against a scratch copy of the library (mutation / seed experiments) must not replace the evidence of /repo
        out_dir = os.path.join(os.environ["VALIDA_SRC"], "_evidence")
        os.makedirs(out_dir, exist_ok=True)
    with open(os.path.join(out_dir, f"{prop}.json"), "w") as fh:
        json.dump(ev, fh, indent=1, sort_keys=True, default=repr)
