"""Executable clauses for C01-C08 (filtering, combinations, path resolution, rules, schemas,
no-raise, read-only).  Oracle: vf/oracle.py.  Code under test: the valida tree on sys.path."""
import copy
import itertools
import json

from . import gen as G
from . import oracle as O
from .core import clause, cases, Fail, exc_sig, snap
from .terms import build_cond, build_part, build_path, build_rule, build_schema, dec, enc, ns, show_cond, show_path, \
    show_rule


def _docs(r, tier, n):
    out = list(G.small_docs())
    out += [G.gen_doc(r, 3) for _ in range(n)]
    return out


def teq(a, b):
    """Equality that distinguishes True from 1 and 1 from 1.0 (type-exact, structural)."""
    return O.type_exact_equal(a, b)


# =========================================================================== C01
@clause("C01", "filter-meaning")
def c01_filter(w):
    """cond.filter(doc): one boolean per item equal to Meaning; data/keys/failure_indices the induced
    partition; test/test_all agree; a key (index) condition refuses a list (mapping) with TypeError;
    nothing else raises."""
    V = ns()
    leaf, doc = w["leaf"], dec(w["doc"])
    sig0 = f"{leaf['cls']}.{leaf['m']}"
    try:
        c = build_cond(leaf)
    except Exception as e:
        return Fail(f"construct:{sig0}:{type(e).__name__}", f"DSL constructor {show_cond(leaf)} raised {e!r}")
    kind = O.CLS_KIND[leaf["cls"]]
    wrong = (kind == "key" and isinstance(doc, list)) or (kind == "index" and isinstance(doc, dict))
    try:
        F = c.filter(doc)
    except TypeError as e:
        if wrong:
            return None
        return Fail(f"raises:{sig0}:TypeError", f"{show_cond(leaf)}.filter({doc!r}) raised {e!r}")
    except Exception as e:
        return Fail(f"raises:{sig0}:{type(e).__name__}", f"{show_cond(leaf)}.filter({doc!r}) raised {e!r}")
    if wrong:
        return Fail(f"kind-check:{sig0}", f"{show_cond(leaf)}.filter({doc!r}) did not refuse the wrong container kind")
    ks, vs = O.items_of(doc)
    want = O.Sem(leaf, ks, vs)
    got = F.result
    if not (isinstance(got, list) and len(got) == len(ks) and all(type(b) is bool for b in got)):
        return Fail(f"shape:{sig0}", "result is not one bool per item", got, want)
    if got != want:
        return Fail(f"meaning:{sig0}", f"{show_cond(leaf)}.filter({doc!r}).result", got, want)
    if not teq(list(F.data), [v for v, s in zip(vs, want) if s]):
        return Fail(f"partition-data:{sig0}", "selected values", F.data, [v for v, s in zip(vs, want) if s])
    if not teq(list(F.keys), [k for k, s in zip(ks, want) if s]):
        return Fail(f"partition-keys:{sig0}", "selected keys", F.keys, [k for k, s in zip(ks, want) if s])
    if list(F.failure_indices) != [i for i, s in enumerate(want) if not s]:
        return Fail(f"partition-failures:{sig0}", "failure indices", F.failure_indices,
                    [i for i, s in enumerate(want) if not s])
    try:
        ta = c.test_all(doc)
        if ta is not all(want):
            return Fail(f"test_all:{sig0}", "test_all", ta, all(want))
        if kind == "value":
            for v, s in zip(vs, want):
                t = c.test(v)
                if t is not s:
                    return Fail(f"test:{sig0}", f"test({v!r})", t, s)
        F2 = V.da.Data(doc).filter(c)
        if F2.result != want:
            return Fail(f"data-filter:{sig0}", "Data.filter", F2.result, want)
    except Exception as e:
        return Fail(f"raises-entry:{sig0}:{type(e).__name__}", f"test/test_all/Data.filter raised {e!r}")
    return None


@cases("C01", "filter-meaning")
def c01_gen(r, tier):
    docs = G.small_docs()
    n = 4 if tier == "quick" else 30
    for cls, m in G.all_leaf_shapes():
        for _ in range(n):
            a, k = G.gen_leaf_args(r, cls, m)
            t = G.leaf(cls, m, *a, **k)
            for d in r.sample(docs, 3) + [G.gen_doc(r, 2)]:
                yield {"leaf": t, "doc": enc(d)}
    for al in O.ALIASES:
        a, k = G.gen_leaf_args(r, "Value", O.ALIASES[al])
        yield {"leaf": G.leaf("Value", al, *a, **k), "doc": enc(r.choice(docs))}
    # items that are == but of different types next to each other (1, 1.0, True; 0, 0.0, False): each item gets its own
    # verdict - nothing may be carried over from an equal item (a value-keyed cache would)
    mixed = [[1, 1.0, "1", True, 2.0], [True, 1.0, 1], [0.0, False, 0, ""], [False, 0.0], {"a": 1.0, "b": True, "c": 1},
             {1: "x", True: "y"}, [1.0, 1, True, [1], [1.0], [True]]]
    for d in mixed:
        for t in (G.leaf("Value", "is_instance", {"$type": "int"}), G.leaf("Value", "is_instance", {"$type": "float"}),
                  G.leaf("Value", "is_instance", {"$type": "bool"}), G.leaf("ValueDataType", "equal_to", {"$type": "bool"}),
                  G.leaf("ValueDataType", "in_", [{"$type": "int"}, {"$type": "float"}]), G.leaf("Value", "equal_to", True),
                  G.leaf("Value", "in_", [1.0]), G.leaf("Value", "truthy")):
            yield {"leaf": t, "doc": enc(d)}


# =========================================================================== C02
def _build_shared(t, V, pool):
    """Build a condition tree so that equal leaf terms share one object (operand reuse)."""
    k = t["$c"]
    if k in ("leaf", "null"):
        key = json.dumps(t, default=repr)
        if key not in pool:
            pool[key] = (t, build_cond(t, V))
        return pool[key][1]
    l, rr = _build_shared(t["l"], V, pool), _build_shared(t["r"], V, pool)
    obj = {"and": lambda: l & rr, "or": lambda: l | rr, "xor": lambda: l ^ rr}[k]()
    pool[json.dumps(t, default=repr) + "#" + str(len(pool))] = (t, obj)
    return obj


@clause("C02", "boolean-algebra")
def c02_algebra(w):
    """A combination filters to the pointwise Boolean combination of its operands (null = identity);
    building it leaves every operand (leaf or sub-combination) filtering as before."""
    V = ns()
    t, docs = w["cond"], [dec(d) for d in w["docs"]]
    kinds = O.cond_kinds(t)
    sig0 = _tree_sig(t)
    if "key" in kinds and "index" in kinds:
        from .terms import BuildError
        try:
            build_cond(t, V)
        except BuildError as e:
            if isinstance(e.exc, TypeError):
                return None
            return Fail(f"mixed:{type(e.exc).__name__}", f"{show_cond(t)} raised {e.exc!r} instead of TypeError")
        return Fail("mixed:accepted", f"{show_cond(t)} combines key and index conditions but was accepted")
    pool = {}
    try:
        top = _build_shared(t, V, pool)
    except Exception as e:
        return Fail(f"construct:{exc_sig(e)}", f"building {show_cond(t)} raised {e!r}")
    for d in docs:
        ks, vs = O.items_of(d)
        for key, (sub, obj) in pool.items():
            want = O.Sem(sub, ks, vs)
            try:
                got = V.c.ConditionLike.filter(obj, d).result
            except Exception as e:
                return Fail(f"raises:{exc_sig(e)}", f"sub-term {show_cond(sub)} of {show_cond(t)} on {d!r} raised {e!r}")
            if got != want:
                which = "top" if obj is top else "operand"
                return Fail(f"sem-{which}:{sub['$c']}", f"{show_cond(sub)} (inside {show_cond(t)}) on {d!r}", got, want)
    return None


def _tree_sig(t):
    k = t["$c"]
    if k == "leaf":
        return "L"
    if k == "null":
        return "N"
    return f"{k}({_tree_sig(t['l'])},{_tree_sig(t['r'])})"


@cases("C02", "boolean-algebra")
def c02_gen(r, tier):
    n = 250 if tier == "quick" else 3000
    a = G.leaf("Value", "greater_than", 1)
    b = G.leaf("Value", "less_than", 4)
    N = {"$c": "null"}
    docs = [enc([0, 2, 5, "a"]), enc({"a": 0, "b": 2, "c": 9})]
    for op in ("and", "or", "xor"):
        ab = {"$c": op, "l": a, "r": b}
        for t in (ab, {"$c": op, "l": a, "r": N}, {"$c": op, "l": N, "r": a}, {"$c": op, "l": N, "r": N},
                  {"$c": op, "l": ab, "r": N}, {"$c": op, "l": N, "r": ab}, {"$c": op, "l": ab, "r": ab},
                  {"$c": op, "l": {"$c": op, "l": ab, "r": N}, "r": a},
                  {"$c": "and", "l": ab, "r": {"$c": "or", "l": N, "r": ab}}):
            yield {"cond": t, "docs": docs}
    for _ in range(n):
        kinds = r.choice([("value",), ("value", "key"), ("value", "index"), ("key",), ("index",), ("value",),
                          ("key", "index", "value")])
        t = G.gen_cond(r, r.randint(1, 3), kinds, null_p=0.25)
        if "key" in kinds and "index" not in kinds:
            ds = [G.gen_doc(r, 2) for _ in range(2)] + [{"a": 1, 1: "x", "bb": [1]}]
        else:
            ds = [G.gen_doc(r, 2) for _ in range(2)] + [[1, "a", [2]]]
        yield {"cond": t, "docs": [enc(d) for d in ds]}


@clause("C02", "spec-lists")
def c02_speclists(w):
    """{'and'|'or'|'xor': [specs]} folds left into the same Boolean combination."""
    V = ns()
    op, leaves, docs = w["op"], w["leaves"], [dec(d) for d in w["docs"]]
    spec = {op: [_leaf_spec(l) for l in leaves]}
    try:
        c = V.c.ConditionLike.from_spec(copy.deepcopy(spec))
    except Exception as e:
        return Fail(f"raises:{type(e).__name__}", f"from_spec({spec!r}) raised {e!r}")
    for d in docs:
        ks, vs = O.items_of(d)
        tree = {"$c": "null"}
        for l in leaves:
            tree = {"$c": op, "l": tree, "r": l}                 # left fold, null is the identity
        want = O.Sem(tree, ks, vs)
        try:
            got = V.c.ConditionLike.filter(c, d).result
        except Exception as e:
            return Fail(f"raises-filter:{type(e).__name__}", f"from_spec({spec!r}).filter({d!r}) raised {e!r}")
        if got != want:
            return Fail(f"sem:{op}:{len(leaves)}", f"from_spec({spec!r}).filter({d!r})", got, want)
    return None


_SIMPLE_ATOMS = [None, True, 0, 1, -1, 2, 1.5, "", "a", "1", [1, "a"], []]


def _leaf_spec(l):
    if l["$c"] == "null":
        return {}
    if l["$c"] in ("and", "or", "xor"):
        return {l["$c"]: [_leaf_spec(l["l"]), _leaf_spec(l["r"])]}
    key = f"{O.CLS_LABEL[l['cls']]}.{l['m']}"
    return {key: dec(l["a"][0]) if l.get("a") else None}


def _simple_args(r, l):
    if l["$c"] == "leaf" and l.get("a"):
        return dict(l, a=[r.choice(_SIMPLE_ATOMS)])
    if l["$c"] in ("and", "or", "xor"):
        return dict(l, l=_simple_args(r, l["l"]), r=_simple_args(r, l["r"]))
    return l


@cases("C02", "spec-lists")
def c02_speclists_gen(r, tier):
    n = 80 if tier == "quick" else 800
    simple = ["equal_to", "less_than", "greater_than", "not_equal_to", "truthy", "falsy"]
    for _ in range(n):
        k = r.randint(0, 4)
        leaves = []
        for _ in range(k):
            x = r.random()
            if x < 0.15:
                leaves.append({"$c": "null"})
            elif x < 0.3:
                op2 = r.choice(["and", "or", "xor"])
                leaves.append({"$c": op2, "l": G.gen_leaf(r, "Value", methods=simple),
                               "r": G.gen_leaf(r, "Value", methods=simple)})
            else:
                leaves.append(G.gen_leaf(r, "Value", methods=simple))
        leaves = [_simple_args(r, l) for l in leaves]
        yield {"op": r.choice(["and", "or", "xor"]), "leaves": leaves,
               "docs": [enc(G.gen_doc(r, 2)), enc([0, 1, 2, "a", None])]}


# =========================================================================== C03
@clause("C03", "walk")
def c03_walk(w):
    """get_data == part-by-part walk; concrete -> node or None, non-concrete -> list; inapplicable parts
    match nothing; all entry points agree; nothing raises."""
    V = ns()
    p, doc = w["path"], dec(w["doc"])
    sig0 = _path_sig(p)
    try:
        path = build_path(p, V)
    except Exception as e:
        return Fail(f"construct:{exc_sig(e)}", f"building {show_path(p)} raised {e!r}")
    want = O.GetDataSpec(p, doc, False)
    entries = {
        "get_data(raw)": lambda: path.get_data(doc),
        "get_data(Data)": lambda: path.get_data(V.da.Data(doc)),
        "Data.get(path)": lambda: V.da.Data(doc).get(path),
        "Data.get(*parts)": lambda: V.da.Data(doc).get(*[build_part(i, V) for i in p["parts"]]),
        "source_data": lambda: V.d.DataPath(*[build_part(i, V) for i in p["parts"]], source_data=doc).get_data(),
    }
    for name, f in entries.items():
        try:
            got = f()
        except Exception as e:
            return Fail(f"raises:{name}:{exc_sig(e)}", f"{show_path(p)} on {doc!r} via {name} raised {e!r}")
        if not teq(got, want) and not (name == "get_data(Data)" and not p["parts"] and got == want):
            return Fail(f"selection:{name}:{sig0}", f"{show_path(p)} on {doc!r} via {name}", got, want)
    return None


def _path_sig(p):
    return "/".join("prim" if "$prim" in i else i["$p"] for i in p["parts"]) or "empty"


@cases("C03", "walk")
def c03_gen(r, tier):
    n = 500 if tier == "quick" else 8000
    docs = G.small_docs()
    for d in ([10, 20, 30], {"runs": [{"id": 1}, {"id": 2}, {"id": 3}]}, {"a": {-1: "neg", 1: "pos"}}, [[1, 2], [3, 4]]):
        for parts in ([-1], [-2], ["runs", -1], ["runs", -3, "id"], ["a", -1], [0, -1], [-1, -1], [3], [-4]):
            yield {"path": {"parts": [{"$prim": q} for q in parts]}, "doc": enc(d)}
    # a key / index condition in the *generic* condition slot of a map-or-list part: mappings only / lists only
    keq, ieq = G.leaf("Key", "equal_to", 0), G.leaf("Index", "equal_to", 1)
    for d in (["x", "y"], {0: "a", 1: "b"}, {"p": ["x", "y"], "q": {0: "a", 1: "b"}}, [[10, 20], {1: "one", 0: "zero"}]):
        for parts in ([{"$p": "mol", "condition": keq}], [{"$p": "mol", "condition": ieq}], [{"$p": "mol"}, {"$p": "mol", "condition": keq}],
                      [{"$p": "mol"}, {"$p": "mol", "condition": ieq}]):
            yield {"path": {"parts": copy.deepcopy(parts)}, "doc": enc(d)}
    # siblings that compare equal but differ in type (1 / True / 1.0, 0 / False / 0.0), under type-sensitive value conditions:
    # every child is judged on its own
    tint, tbool = G.leaf("ValueDataType", "equal_to", {"$type": "int"}), G.leaf("ValueDataType", "equal_to", {"$type": "bool"})
    inst = G.leaf("Value", "is_instance", {"$type": "float"})
    for d in ({"a": [1, True, 1.0, 2, "1"], "b": {"x": 0, "y": False, "z": 0.0}}, [True, 1, 1.0], [0.0, 0, False, 0], {"k": [[1], [True], [1.0]]}):
        for vc in (tint, tbool, inst):
            for parts in ([{"$p": "list", "value": vc}], [{"$p": "map", "value": vc}], [{"$p": "mol", "value": vc}],
                          [{"$prim": "a"}, {"$p": "list", "value": vc}], [{"$prim": "b"}, {"$p": "map", "value": vc}],
                          [{"$p": "mol"}, {"$p": "mol", "value": vc}], [{"$prim": "k"}, {"$p": "list"}, {"$p": "list", "value": vc}]):
                yield {"path": {"parts": copy.deepcopy(parts)}, "doc": enc(d)}
    for _ in range(n):
        d = r.choice(docs) if r.random() < 0.3 else G.gen_doc(r, 3)
        p = G.path_into(r, d) if r.random() < 0.5 else G.gen_path(r, 3)
        yield {"path": p, "doc": enc(d)}


# =========================================================================== C04
@clause("C04", "paths-and-modifiers")
def c04_mods(w):
    """(value, path) pairs are truthful and distinct; values without paths are the same; datum and
    multiplicity modifiers mean what they say in either application order; multiplicity modifiers are
    refused on concrete paths."""
    V = ns()
    p, doc = w["path"], dec(w["doc"])
    mods = p.get("mods", [])
    conc = O.is_concrete(p)
    base = build_path({"parts": p["parts"]}, V)
    if conc and any(m in O.MULTI_MODS for m in mods):
        for m in mods:
            if m in O.MULTI_MODS:
                try:
                    getattr(base, m)()
                except ValueError:
                    return None
                except Exception as e:
                    return Fail(f"concrete-multi:{type(e).__name__}", f"{show_path(p)}: {m}() on a concrete path raised {e!r}")
                return Fail("concrete-multi:accepted", f"{show_path(p)}: {m}() accepted on a concrete path")
    try:
        want_p = O.GetDataSpec(p, doc, True)
        want = O.GetDataSpec(p, doc, False)
        want_exc = None
    except O.Undefined:
        return None
    except ValueError as e:
        want_exc = ValueError
    orders = [mods] if len(mods) < 2 else [mods, mods[::-1]]
    before = snap(base)
    for order in orders:
        try:
            path = base
            for m in order:
                path = getattr(path, m)()
        except Exception as e:
            return Fail(f"modifier-raises:{type(e).__name__}", f"{show_path(p)} order {order} raised {e!r}")
        if snap(base) != before:
            return Fail("modifier-mutates-self", f"{show_path(p)}: applying {order} changed the original path")
        try:
            got_p = path.get_data(doc, return_paths=True)
            got = path.get_data(doc, return_paths=False)
        except ValueError as e:
            if want_exc is ValueError:
                continue
            return Fail(f"raises:ValueError:{'+'.join(order)}", f"{show_path(p)} on {doc!r} raised {e!r}")
        except Exception as e:
            return Fail(f"raises:{exc_sig(e)}:{'+'.join(order)}", f"{show_path(p)} on {doc!r} raised {e!r}")
        if want_exc:
            return Fail(f"single-not-refused:{'+'.join(order)}", f"{show_path(p)} on {doc!r}: several matches accepted", got)
        if not teq(got, want):
            return Fail(f"values:{'+'.join(order) or 'none'}", f"{show_path(p)} order {order} on {doc!r}", got, want)
        if not teq(got_p, want_p):
            return Fail(f"pairs:{'+'.join(order) or 'none'}", f"{show_path(p)} order {order} on {doc!r} (paths)", got_p, want_p)
    if not any(m in O.DATUM_MODS for m in mods) and p["parts"]:
        # truthfulness against the document itself (independent of Walk)
        got_p = base.get_data(doc, return_paths=True)
        pairs = [got_p] if conc and got_p is not None else (got_p or [])
        seen = []
        for v, cp in pairs:
            try:
                if not teq(O.IndexAt(doc, cp), v):
                    return Fail("truthful", f"{show_path(p)} on {doc!r}: path {cp!r} does not reach the returned value")
            except Exception as e:
                return Fail("truthful", f"{show_path(p)} on {doc!r}: path {cp!r} cannot be followed ({e!r})")
            if any(teq(cp, s) for s in seen):
                return Fail("distinct", f"{show_path(p)} on {doc!r}: path {cp!r} reported twice")
            seen.append(cp)
    return None


@cases("C04", "paths-and-modifiers")
def c04_gen(r, tier):
    n = 500 if tier == "quick" else 8000
    for _ in range(n):
        d = G.gen_doc(r, 3)
        p = G.path_into(r, d, fan_p=0.5) if r.random() < 0.7 else G.gen_path(r, 3)
        ms = []
        if r.random() < 0.6:
            ms.append(r.choice(["dtype", "length", "map_keys", "map_values"]))
        if r.random() < 0.7:
            ms.append(r.choice(["first", "last", "single", "all"]))
        r.shuffle(ms)
        p["mods"] = ms
        yield {"path": p, "doc": enc(d)}


# =========================================================================== C05
def _rule_result(t):
    return dict(valid=t.is_valid, tested=t.tested, failures=[(f.index, f.path, f.value) for f in t.failures])


@clause("C05", "rule-verdict")
def c05_rule(w):
    """Rule.test: valid iff all selected nodes satisfy; untested when nothing selected; failures are
    exactly the failing nodes in order with true path, value, >= 1 reason; count == len."""
    V = ns()
    rt, doc = w["rule"], dec(w["doc"])
    try:
        rule = build_rule(rt, V)
    except Exception as e:
        return Fail(f"construct:{exc_sig(e)}", f"building {show_rule(rt)} raised {e!r}")
    want = O.RuleTestSpec(rt, doc)
    try:
        t = rule.test(doc)
        got = _rule_result(t)
    except Exception as e:
        return Fail(f"raises:{exc_sig(e)}", f"{show_rule(rt)}.test({doc!r}) raised {e!r}")
    if got["valid"] is not want["valid"] or got["tested"] is not want["tested"]:
        return Fail("verdict", f"{show_rule(rt)}.test({doc!r})", got, {k: want[k] for k in ("valid", "tested")})
    if not teq(got["failures"], want["failures"]):
        return Fail("failures", f"{show_rule(rt)}.test({doc!r}) failure list", got["failures"], want["failures"])
    if t.num_failures != len(t.failures):
        return Fail("count", "num_failures != len(failures)", t.num_failures, len(t.failures))
    for f in t.failures:
        if not (isinstance(f.reasons, tuple) and len(f.reasons) >= 1 and all(isinstance(s, str) and s for s in f.reasons)):
            return Fail("no-reason", f"{show_rule(rt)}.test({doc!r}): failure at {f.path!r} has reasons {f.reasons!r}")
    return None


@cases("C05", "rule-verdict")
def c05_gen(r, tier):
    n = 500 if tier == "quick" else 8000
    for _ in range(n):
        d = G.gen_doc(r, 3)
        yield {"rule": G.gen_rule(r, d, depth=r.randint(0, 3)), "doc": enc(d)}


# =========================================================================== C06
@clause("C06", "schema-aggregates")
def c06_schema(w):
    """Schema verdict = conjunction, failure count = sum, tested = count; rules shortest path first,
    stable; invariant under permutation of the rule list; failure report always a str naming every
    failing path."""
    V = ns()
    st, doc, perm = w["schema"], dec(w["doc"]), w.get("perm")
    want = O.SchemaSpec(st, doc)
    try:
        S = build_schema(st, V)
        vd = S.validate(doc)
    except Exception as e:
        return Fail(f"raises:{exc_sig(e)}", f"validate raised {e!r}")
    got = dict(valid=vd.is_valid, num_failures=vd.num_failures, num_tested=vd.num_rules_tested)
    for k in got:
        if got[k] != want[k] or type(got[k]) is not type(want[k]):
            return Fail(f"aggregate:{k}", f"schema of {len(st['rules'])} rules on {doc!r}: {k}", got[k], want[k])
    want_rules = [build_rule(rt, V) for rt in want["rules"]]
    if len(S.rules) != len(want_rules) or not all(
            len(a.path) == len(b.path) and snap(a) == snap(b) for a, b in zip(S.rules, want_rules)):
        return Fail("rule-order", "rules are not the given rules stably sorted by path length",
                    [show_path_len(x) for x in S.rules], [show_path_len(x) for x in want_rules])
    fails = {(i, cp) for i, t in enumerate(want["tests"]) for (_, cp, _) in t["failures"]}
    got_fails = {(i, f.path) for i, t in enumerate(vd.rule_tests) for f in t.failures}
    if not teq(sorted(fails, key=repr), sorted(got_fails, key=repr)):
        return Fail("failing-pairs", "set of (rule, failing path)", got_fails, fails)
    try:
        s = vd.get_failures_string()
    except Exception as e:
        return Fail(f"report-raises:{type(e).__name__}", f"get_failures_string raised {e!r}")
    if not isinstance(s, str):
        return Fail("report-not-str:" + ("valid" if want["valid"] else "invalid"), "get_failures_string()", s, "a str")
    for _, cp in fails:
        if repr(cp) not in s:
            return Fail("report-misses-path", f"failure report does not name failing path {cp!r}", s)
    if perm:
        st2 = {"rules": [st["rules"][i] for i in perm]}
        S2 = build_schema(st2, V)
        vd2 = S2.validate(doc)
        g2 = dict(valid=vd2.is_valid, num_failures=vd2.num_failures, num_tested=vd2.num_rules_tested)
        if g2 != got:
            return Fail("permutation", f"aggregates change under permutation {perm}", g2, got)
        key = lambda rule: repr(snap(rule))
        pairs1 = sorted((key(t.rule), repr(f.path)) for t in vd.rule_tests for f in t.failures)
        pairs2 = sorted((key(t.rule), repr(f.path)) for t in vd2.rule_tests for f in t.failures)
        if pairs1 != pairs2:
            return Fail("permutation-pairs", f"(rule, failing path) set changes under permutation {perm}", pairs2, pairs1)
    return None


def show_path_len(rule):
    return len(rule.path)


@clause("C06", "validate-sequence")
def c06_sequence(w):
    """One schema object validating several documents one after the other gives, for each, the conjunction of its
    rules' verdicts on *that* document (what a freshly built schema gives)."""
    V = ns()
    st, docs = w["schema"], [dec(d) for d in w["docs"]]
    S = build_schema(st, V)
    for d in docs:
        want = O.SchemaSpec(st, d)
        vd = S.validate(d)
        got = (vd.is_valid, vd.num_failures, vd.num_rules_tested)
        if got != (want["valid"], want["num_failures"], want["num_tested"]):
            return Fail("stale-verdict", f"shared schema on {d!r} after validating {docs!r} in order", got,
                        (want["valid"], want["num_failures"], want["num_tested"]))
    return None


@cases("C06", "validate-sequence")
def c06_sequence_gen(r, tier):
    n = 60 if tier == "quick" else 800
    ty = lambda t: G.leaf("ValueDataType", "equal_to", {"$type": t})
    for t in ("int", "bool", "float"):
        rules = [{"path": {"parts": [{"$p": "mol"}]}, "cond": ty(t)}, {"path": {"parts": []}, "cond": G.leaf("Value", "truthy")}]
        yield {"schema": {"rules": rules}, "docs": [enc({"n": 1, "m": 0}), enc({"n": True, "m": False}), enc({"n": 1.0, "m": 0.0})]}
        yield {"schema": {"rules": rules}, "docs": [enc([1, 0]), enc([True, False]), enc([1.0, 0.0]), enc([1, 0])]}
    for _ in range(n):
        d = G.gen_doc(r, 2)
        docs = [d, copy.deepcopy(d), G.gen_doc(r, 2)]
        yield {"schema": G.gen_schema(r, d, n=r.randint(1, 3)), "docs": [enc(x) for x in docs]}


@cases("C06", "schema-aggregates")
def c06_gen(r, tier):
    n = 250 if tier == "quick" else 4000
    yield {"schema": {"rules": []}, "doc": enc({"a": 1})}
    # a schema is a list of rules: equal rules count separately (given twice, or equal up to ==, e.g. 1 and True)
    fan = {"path": {"parts": [{"$prim": "a"}, {"$p": "list"}]}, "cond": G.leaf("Value", "greater_than", 1)}
    one = {"path": {"parts": [{"$prim": "b"}]}, "cond": G.leaf("Value", "equal_to", 1)}
    tru = {"path": {"parts": [{"$prim": "b"}]}, "cond": G.leaf("Value", "equal_to", True)}
    for rules in ([fan, fan], [one, tru], [fan, one, fan, tru]):
        for perm in ([0, 1] if len(rules) == 2 else [0, 1, 2, 3], [1, 0] if len(rules) == 2 else [3, 1, 2, 0]):
            yield {"schema": {"rules": copy.deepcopy(rules)}, "doc": enc({"a": [1, 2, 0], "b": "x"}), "perm": perm}
    # long schemas (5..9 rules) in which exactly one late rule fails, or all but one late rule are untested: an aggregate that
    # looks at the first few rule tests only (DESIGN 13.29; the deductive half states these aggregates for any number)
    okr = {"path": {"parts": [{"$prim": "b"}]}, "cond": G.leaf("Value", "equal_to", "x")}
    gone = {"path": {"parts": [{"$prim": "zz"}]}, "cond": G.leaf("Value", "equal_to", 1)}
    for k in (5, 6, 9):
        for pos in (k - 1, 4):
            for base, odd in ((okr, one), (gone, okr), (gone, one)):
                rules = [copy.deepcopy(base) for _ in range(k)]
                rules[pos] = copy.deepcopy(odd)
                idx = list(range(k))
                for perm in (idx, idx[::-1]):
                    yield {"schema": {"rules": rules}, "doc": enc({"a": [1, 2, 0], "b": "x"}), "perm": perm}
    # rules whose paths differ only in the type of a numerically equal part (1 / 1.0 / True; an explicit map key 0 vs the bare
    # 0 that is an index in a list): different nodes, judged independently, also with rules beneath them
    gt = G.leaf("Value", "greater_than", 15)
    P = lambda *parts: {"parts": [q if isinstance(q, dict) else {"$prim": q} for q in parts]}
    mk0 = {"$p": "map", "key": 0}
    for doc, paths in (
            ({"a": [10, 20]}, [P("a", 1.0), P("a", 1)]),
            ({"a": [10, 20]}, [P("a", True), P("a", 1), P("a", 1.0)]),
            ({"a": [[5, 30], [40]]}, [P("a", mk0), P("a", 0), P("a", 0, 1)]),
            ({"a": {1: 30, "x": 5}}, [P("a", 1.0), P("a", 1), P("a", "y"), P("a", "x")]),
            ([[10, 20], {1.0: 99}], [P(0, 1.0), P(0, 1), P(1, 1), P(1, 1.0)]),
            ({"a": [[1, 99], [2]]}, [P("a", 0.0), P("a", 0, 1), P("a", 0)])):
        rules = [{"path": pp, "cond": gt} for pp in paths]
        idx = list(range(len(rules)))
        for perm in (idx, idx[::-1], idx[1:] + idx[:1]):
            yield {"schema": {"rules": copy.deepcopy(rules)}, "doc": enc(doc), "perm": perm}
    for _ in range(n):
        d = G.gen_doc(r, 3)
        s = G.gen_schema(r, d)
        if s["rules"] and r.random() < 0.15:
            s["rules"].append(copy.deepcopy(r.choice(s["rules"])))
        perm = list(range(len(s["rules"])))
        r.shuffle(perm)
        yield {"schema": s, "doc": enc(d), "perm": perm}


# =========================================================================== C07
@clause("C07", "never-raises")
def c07_noraise(w):
    """Validating any non-empty document against a well-typed schema returns a result object."""
    V = ns()
    st, doc = w["schema"], dec(w["doc"])
    S = build_schema(st, V)
    try:
        vd = S.validate(copy.deepcopy(doc))
        vd.is_valid, vd.num_failures, vd.num_rules_tested
    except Exception as e:
        return Fail(f"validate:{exc_sig(e)}", f"Schema({[show_rule(x) for x in st['rules']]}).validate({doc!r}) raised {e!r}")
    for rt in st["rules"]:
        try:
            build_rule(rt, V).test(copy.deepcopy(doc))
        except Exception as e:
            return Fail(f"test:{exc_sig(e)}", f"{show_rule(rt)}.test({doc!r}) raised {e!r}")
    return None


@cases("C07", "never-raises")
def c07_gen(r, tier):
    n = 600 if tier == "quick" else 10000
    docs = G.small_docs()
    # directed: every callable (well-typed args) x awkward documents, with and without casts
    for cls, m in G.all_leaf_shapes():
        if O.CLS_KIND[cls] != "value":
            continue
        a, k = G.gen_leaf_args(r, cls, m, well_typed=True)
        for d in r.sample(docs, 4):
            for cast in (None, {"str": "int"}, {"str": "bool"}):
                rule = {"path": G.path_into(r, d, fan_p=0.5), "cond": G.leaf(cls, m, *a, **k)}
                if cast:
                    rule["cast"] = cast
                yield {"schema": {"rules": [rule]}, "doc": enc(d)}
    for _ in range(n):
        d = G.gen_doc(r, 3)
        yield {"schema": G.gen_schema(r, d, well_typed=True, cast_p=0.4), "doc": enc(d)}


# =========================================================================== C08
@clause("C08", "read-only")
def c08_readonly(w):
    """filter / get / test / validate leave document and every given valida object unchanged, and a
    repeated or interleaved call gives what fresh objects give."""
    V = ns()
    st, docs = w["schema"], [dec(d) for d in w["docs"]]
    S = build_schema(st, V)
    docs0 = copy.deepcopy(docs)
    s0 = snap(S)

    def observe(schema, d):
        out = []
        vd = schema.validate(d)
        out.append(("validate", vd.is_valid, vd.num_failures, vd.num_rules_tested,
                    [(i, f.index, repr(f.path), repr(f.value)) for i, t in enumerate(vd.rule_tests) for f in t.failures],
                    repr(vd.cast_data)))
        for rule in schema.rules:
            t = rule.test(d)
            out.append(("test", t.is_valid, t.tested, [(f.index, repr(f.path)) for f in t.failures]))
            out.append(("get", repr(rule.path.get_data(d, return_paths=True))))
            sel = rule.path.get_data(d)
            if isinstance(sel, (list, dict)) and sel:
                try:
                    out.append(("filter", rule.condition.filter(sel).result))
                except TypeError:
                    out.append(("filter", "TypeError"))
        return out

    try:
        fresh = [observe(build_schema(st, V), copy.deepcopy(d)) for d in docs0]
        got = []
        for rnd in range(2):
            order = list(range(len(docs))) if rnd == 0 else list(reversed(range(len(docs))))
            for i in order:
                got.append((i, observe(S, docs[i])))
                if not teq(docs[i], docs0[i]):
                    return Fail("document-mutated", f"document changed by validation: now {docs[i]!r}", docs[i], docs0[i])
                if snap(S) != s0:
                    return Fail("schema-mutated", f"schema objects changed by validation of {docs[i]!r} "
                                f"({[show_rule(x) for x in st['rules']]})")
    except Exception as e:
        return Fail(f"raises:{exc_sig(e)}", f"call sequence raised {e!r} ({[show_rule(x) for x in st['rules']]})")
    for i, o in got:
        if o != fresh[i]:
            return Fail("not-repeatable", f"shared-object result differs from fresh-object result on {docs0[i]!r}", o, fresh[i])
    return None


@cases("C08", "read-only")
def c08_gen(r, tier):
    n = 200 if tier == "quick" else 3000
    T = G.leaf("Value", "truthy")
    for doc in ({"opts": {"retries": "5", "on": "true"}, "n": "1"}, {"a": ["1", ["2", "x"]], "b": "true"}, [["1", "2"], "3", {"k": "4"}]):
        for c1, c2 in (({"str": "int"}, {"str": "int"}), ({"str": "bool"}, {"str": "int"})):
            rules = [{"path": {"parts": [{"$p": "mol"}]}, "cond": T, "cast": c1},
                     {"path": {"parts": [{"$p": "mol"}, {"$p": "mol"}]}, "cond": T, "cast": c2},
                     {"path": {"parts": [{"$p": "mol"}, {"$p": "mol"}, {"$p": "mol"}]}, "cond": T, "cast": c2}]
            yield {"schema": {"rules": rules}, "docs": [enc(doc), enc(doc)]}
    # same schema object, ==-equal but type-different documents one after the other
    tyrule = {"path": {"parts": [{"$p": "mol"}]}, "cond": G.leaf("ValueDataType", "equal_to", {"$type": "int"})}
    yield {"schema": {"rules": [tyrule]}, "docs": [enc({"n": 1, "m": 0}), enc({"n": True, "m": False}), enc({"n": 1.0, "m": 0.0})]}
    yield {"schema": {"rules": [tyrule]}, "docs": [enc([1, 0]), enc([True, False]), enc([1.0, 0.0])]}
    for _ in range(n):
        docs = [G.gen_doc(r, 3) for _ in range(r.randint(1, 3))]
        s = G.gen_schema(r, docs[0], n=r.randint(1, 3), well_typed=True, cast_p=0.3)
        yield {"schema": s, "docs": [enc(d) for d in docs]}
