"""Executable clauses for C15 (casts), C18 (add_schema), C19 (malformed specs), C20 (documentation tree / HTML)."""
import copy
import html.parser
import json
import re

from . import gen as G
from . import oracle as O
from .core import clause, cases, Fail, exc_sig, snap
from .terms import (build_cond, build_part, build_path, build_rule, build_schema, dec, enc, ns, show_cond, show_path,
                    show_rule, BuildError)
from .props_a import teq
from .props_b import cond_spec, part_specs, path_part_specs, rule_spec, _json_args_only, _json_part, DOC_SHAPES


# =========================================================================== C15
@clause("C15", "casts")
def c15_casts(w):
    """cast_data == the document with exactly the castable selected nodes replaced (type-exact elsewhere);
    verdicts are judged on the copy; the caller's document is untouched."""
    V = ns()
    st, doc = w["schema"], dec(w["doc"])
    want = O.SchemaSpec(st, doc)
    S = build_schema(st, V)
    d0 = copy.deepcopy(doc)
    tag = w.get("tag", "")
    try:
        vd = S.validate(doc)
    except Exception as e:
        return Fail(f"raises:{exc_sig(e)}", f"Schema({[show_rule(x) for x in st['rules']]}).validate({d0!r}) raised {e!r}")
    if not teq(doc, d0):
        return Fail("document-mutated", f"validate with casts changed the caller's document", doc, d0)
    if not teq(vd.cast_data, want["cast_doc"]):
        return Fail(f"cast-data:{tag}", f"Schema({[show_rule(x) for x in st['rules']]}).validate({d0!r}).cast_data", vd.cast_data, want["cast_doc"])
    got = (vd.is_valid, vd.num_failures, vd.num_rules_tested)
    if got != (want["valid"], want["num_failures"], want["num_tested"]):
        return Fail(f"verdict:{tag}", f"Schema({[show_rule(x) for x in st['rules']]}).validate({d0!r}) verdict", got,
                    (want["valid"], want["num_failures"], want["num_tested"]))
    for rt in st["rules"]:
        if not rt.get("cast"):
            continue
        w1 = O.RuleTestSpec(rt, d0)
        try:
            t = build_rule(rt, V).test(doc)
        except Exception as e:
            return Fail(f"test-raises:{exc_sig(e)}", f"{show_rule(rt)}.test({d0!r}) raised {e!r}")
        if not teq(doc, d0):
            return Fail("document-mutated-by-test", f"Rule.test with casts changed the caller's document", doc, d0)
        if not teq(t.data.get_original(), w1["cast_doc"]):
            return Fail(f"rule-cast-data:{tag}", f"{show_rule(rt)}.test({d0!r}).data", t.data.get_original(), w1["cast_doc"])
        if (t.is_valid, t.tested, len(t.failures)) != (w1["valid"], w1["tested"], len(w1["failures"])):
            return Fail(f"rule-verdict:{tag}", f"{show_rule(rt)}.test({d0!r})", (t.is_valid, t.tested, len(t.failures)),
                        (w1["valid"], w1["tested"], len(w1["failures"])))
    return None


CAST_DOCS = [{"a": "true", "b": "12", "c": "zz", "d": 5}, ["true", "False", "7", "x", 3, None],
             {1: "1", True: "true", 1.5: "0", None: "false", "k": ["1", "no"]}, {"a": {"b": ["1", "true", {"c": "2"}]}},
             [["1", "2"], ["x"], "3"], {"a": "", "b": " 1 ", "c": "1_0", "d": "TRUE"}, {0: ["true"], "0": "1"}]


@cases("C15", "casts")
def c15_gen(r, tier):
    n = 300 if tier == "quick" else 5000
    conds = [G.leaf("Value", "truthy"), G.leaf("ValueDataType", "equal_to", {"$type": "bool"}),
             G.leaf("ValueDataType", "in_", [{"$type": "int"}, {"$type": "bool"}]), G.leaf("Value", "greater_than", 1),
             G.leaf("Value", "equal_to", True), G.leaf("Value", "null")]
    for d in CAST_DOCS:
        for cast in ({"str": "bool"}, {"str": "int"}):
            yield {"schema": {"rules": [{"path": {"parts": []}, "cond": conds[0], "cast": cast}]}, "doc": enc(d), "tag": "empty-path"}
            for _ in range(6):
                p = G.path_into(r, d, fan_p=0.4)
                yield {"schema": {"rules": [{"path": p, "cond": r.choice(conds), "cast": cast}]}, "doc": enc(d),
                       "tag": "directed"}
    # several cast rules over overlapping nodes, a later one finding nothing it can cast: it is still judged on the shared copy
    ib = G.leaf("ValueDataType", "in_", [{"$type": "int"}, {"$type": "bool"}])
    for d, rules in (
            ({"opts": {"retries": "3", "debug": "true"}},
             [{"path": {"parts": [{"$prim": "opts"}, {"$prim": "retries"}]}, "cond": conds[3], "cast": {"str": "int"}},
              {"path": {"parts": [{"$prim": "opts"}, {"$p": "map"}]}, "cond": ib, "cast": {"str": "bool"}}]),
            ({7: ["true", "FALSE"]},
             [{"path": {"parts": [{"$prim": 7}, {"$p": "list"}]}, "cond": conds[1], "cast": {"str": "bool"}},
              {"path": {"parts": [{"$prim": 7}, {"$p": "list"}]}, "cond": ib, "cast": {"str": "int"}}]),
            ({"a": ["1", "x"]},
             [{"path": {"parts": [{"$prim": "a"}, {"$prim": 0}]}, "cond": conds[3], "cast": {"str": "int"}},
              {"path": {"parts": [{"$prim": "a"}, {"$prim": 0}]}, "cond": G.leaf("ValueDataType", "equal_to", {"$type": "int"}), "cast": {"str": "bool"}}])):
        yield {"schema": {"rules": copy.deepcopy(rules)}, "doc": enc(d), "tag": "overlapping-casts"}
        yield {"schema": {"rules": copy.deepcopy(rules[::-1])}, "doc": enc(d), "tag": "overlapping-casts"}
    # rules with different casts over different nodes that hold the same string: each node gets its own rule's cast
    for d, rules in (
            ({"flag": "true", "counts": ["3", "true", "x"]},
             [{"path": {"parts": [{"$prim": "flag"}]}, "cond": conds[1], "cast": {"str": "bool"}},
              {"path": {"parts": [{"$prim": "counts"}, {"$p": "list"}]}, "cond": conds[3], "cast": {"str": "int"}}]),
            ({"n": "1", "opts": {"a": "1", "b": "0"}},
             [{"path": {"parts": [{"$prim": "n"}]}, "cond": conds[3], "cast": {"str": "int"}},
              {"path": {"parts": [{"$prim": "opts"}, {"$p": "map"}]}, "cond": conds[1], "cast": {"str": "bool"}}]),
            (["yes", ["yes", "1"], "1"],
             [{"path": {"parts": [{"$prim": 0}]}, "cond": conds[1], "cast": {"str": "bool"}},
              {"path": {"parts": [{"$prim": 2}]}, "cond": conds[3], "cast": {"str": "int"}},
              {"path": {"parts": [{"$prim": 1}, {"$p": "list"}]}, "cond": ib, "cast": {"str": "int"}}])):
        yield {"schema": {"rules": copy.deepcopy(rules)}, "doc": enc(d), "tag": "same-string-different-casts"}
        yield {"schema": {"rules": copy.deepcopy(rules[::-1])}, "doc": enc(d), "tag": "same-string-different-casts"}
    for _ in range(n):
        d = r.choice(CAST_DOCS) if r.random() < 0.5 else G.gen_doc(r, 3)
        rules = []
        for _ in range(r.randint(1, 3)):
            rule = {"path": G.path_into(r, d, fan_p=0.4), "cond": r.choice(conds) if r.random() < 0.6 else G.gen_cond(r, 1, ("value",), True)}
            if r.random() < 0.7:
                rule["cast"] = r.choice([{"str": "bool"}, {"str": "int"}])
            rules.append(rule)
        if any(x.get("cast") for x in rules):
            yield {"schema": {"rules": rules}, "doc": enc(d), "tag": "random"}


# =========================================================================== C18
@clause("C18", "add-schema")
def c18_add(w):
    """S.add_schema(T, R): S = old rules + T's rules re-rooted at R, shortest path first; T unchanged; T can
    be added again elsewhere with each addition independent; S judges doc as before plus T's judgement at R."""
    V = ns()
    St, Tt, R, R2, doc = w["S"], w["T"], w["R"], w["R2"], dec(w["doc"])
    S, T = build_schema(St, V), build_schema(Tt, V)
    T_before = snap(T)
    root = build_path(R, V)
    if w.get("root_as") == "prim":
        root = dec(R["parts"][0]["$prim"])          # a one-part root given as the bare key / index (`root / path` accepts it)
    try:
        S.add_schema(T, root)
    except Exception as e:
        return Fail(f"raises:{exc_sig(e)}", f"add_schema raised {e!r}")
    if snap(T) != T_before:
        return Fail("added-schema-mutated", f"T changed by S.add_schema(T, {show_path(R)}): T.rules paths now "
                    f"{[repr(x.path) for x in T.rules]}")

    def rerooted(root_t):
        return [dict(rt, path={"parts": root_t["parts"] + rt["path"]["parts"], "mods": rt["path"].get("mods", [])})
                for rt in O.sorted_rules(Tt["rules"])]
    want_rules = O.sorted_rules(O.sorted_rules(St["rules"]) + rerooted(R))
    want_objs = [build_rule(rt, V) for rt in want_rules]

    def rsnap(rule):
        # a re-rooted path is "R followed by p": compared part by part (the path-level is_concrete flag of a
        # concatenation is not part of the statement)
        return (snap(rule.path.parts), snap(rule.path.DATUM_TYPE), snap(rule.path.MULTI_TYPE), snap(rule.condition),
                snap(rule.cast), snap(rule.doc))
    if len(S.rules) != len(want_objs) or any(rsnap(a) != rsnap(b) for a, b in zip(S.rules, want_objs)):
        return Fail("rules-after-add", f"S.rules after add_schema(T, {show_path(R)})", [repr(x.path) for x in S.rules],
                    [repr(x.path) for x in want_objs])
    # second, independent addition of the same T
    S2 = build_schema(St, V)
    S2.add_schema(T, build_path(R2, V))
    want2 = [build_rule(rt, V) for rt in O.sorted_rules(O.sorted_rules(St["rules"]) + rerooted(R2))]
    if len(S2.rules) != len(want2) or any(rsnap(a) != rsnap(b) for a, b in zip(S2.rules, want2)):
        return Fail("second-addition-not-independent", f"adding the same T under {show_path(R2)} after {show_path(R)}",
                    [repr(x.path) for x in S2.rules], [repr(x.path) for x in want2])
    if any(rsnap(a) != rsnap(b) for a, b in zip(S.rules, want_objs)):
        return Fail("first-addition-changed-by-second", "S changed when T was added to another schema")
    # behaviour: S' on doc == S on doc + T on doc[R]
    try:
        sub = O.GetDataSpec(R, doc)
    except Exception:
        return None
    if isinstance(sub, (list, dict)) and sub and O.is_concrete(R):
        try:
            a = S.validate(copy.deepcopy(doc))
            b0 = build_schema(St, V).validate(copy.deepcopy(doc))
            b1 = build_schema(Tt, V).validate(copy.deepcopy(sub))
        except Exception:
            return None
        got = (a.is_valid, a.num_failures, a.num_rules_tested)
        want = (b0.is_valid and b1.is_valid, b0.num_failures + b1.num_failures, b0.num_rules_tested + b1.num_rules_tested)
        if got != want:
            return Fail("behaviour", f"S+T@{show_path(R)} on {doc!r}", got, want)
    return None


@clause("C18", "add-sequence")
def c18_sequence(w):
    """After any sequence of add_schema calls into one S, S.rules are the previous rules plus the re-rooted ones,
    shortest path first (stable), and every added T is unchanged."""
    V = ns()
    if w.get("share"):
        # one list object of rules handed to several schemas: a schema owns its rule list, the caller's list and the other
        # schemas built from it are not touched by an addition
        step = w["adds"][0]
        base = [build_rule(rt, V) for rt in w["S"]["rules"]]
        base_before = [id(x) for x in base]
        if w["share"] == "from-T":
            T = V.s.Schema(base)
            S = V.s.Schema(T.rules)
            other = T
        else:
            S, other = V.s.Schema(base), V.s.Schema(base)
            T = build_schema(step["T"], V)
        before, t_before = snap(other), snap(T)
        S.add_schema(T, build_path(step["R"], V))
        if snap(T) != t_before:
            return Fail("added-schema-mutated:shared-list", "an added schema changed (S was built from T's rule list)")
        if snap(other) != before:
            return Fail("other-schema-mutated:shared-list", "a schema built from the same list of rules changed when rules were added to another")
        if [id(x) for x in base] != base_before:
            return Fail("callers-list-mutated", "the list of rules given to Schema(...) was changed by add_schema")
        return None
    S = build_schema(w["S"], V)
    want = O.sorted_rules(w["S"]["rules"])
    for step in w["adds"]:
        T = build_schema(step["T"], V)
        before = snap(T)
        S.add_schema(T, build_path(step["R"], V))
        if snap(T) != before:
            return Fail("added-schema-mutated", "an added schema changed")
        want = O.sorted_rules(want + [dict(rt, path={"parts": step["R"]["parts"] + rt["path"]["parts"]}) for rt in O.sorted_rules(step["T"]["rules"])])
        got = [len(x.path) for x in S.rules]
        if got != [len(rt["path"]["parts"]) for rt in want]:
            return Fail("order-after-sequence", f"path lengths of S.rules after {len(w['adds'])} additions", got,
                        [len(rt["path"]["parts"]) for rt in want])
        objs = [build_rule(rt, V) for rt in want]
        if [snap(x.condition) for x in S.rules] != [snap(x.condition) for x in objs] or [
                snap(x.path.parts) for x in S.rules] != [snap(x.path.parts) for x in objs]:
            return Fail("rules-after-sequence", "S.rules after a sequence of additions", [repr(x.path) for x in S.rules], [repr(x.path) for x in objs])
    return None


@cases("C18", "add-sequence")
def c18_sequence_gen(r, tier):
    n = 100 if tier == "quick" else 1500
    keys = ["a", "b", 1, 1.0, True, 0]
    for _ in range(n):
        mk = lambda depth: {"rules": [{"path": {"parts": [{"$prim": r.choice(keys)} for _ in range(r.randint(0, depth))]},
                                       "cond": G.gen_leaf(r, "Value", True)} for _ in range(r.randint(1, 3))]}
        adds = []
        T = mk(3)
        for i in range(r.randint(2, 4)):
            if r.random() < 0.4:
                T = mk(3)
            adds.append({"T": T, "R": {"parts": [{"$prim": r.choice(keys)} for _ in range(r.randint(0, 3))]}})
        yield {"S": mk(2), "adds": adds}
    for i in range(12):
        mk = lambda depth: {"rules": [{"path": {"parts": [{"$prim": r.choice(keys)} for _ in range(r.randint(0, depth))]},
                                       "cond": G.gen_leaf(r, "Value", True)} for _ in range(r.randint(1, 3))]}
        yield {"S": mk(2), "adds": [{"T": mk(2), "R": {"parts": [{"$prim": r.choice(keys)} for _ in range(r.randint(1, 2))]}}],
               "share": "from-T" if i % 2 else "two-from-base"}


@cases("C18", "add-schema")
def c18_gen(r, tier):
    n = 150 if tier == "quick" else 2500
    for _ in range(n):
        d = G.gen_doc(r, 3)
        R = {"parts": G.path_into(r, d, maxlen=2, fan_p=0.0)["parts"]}
        R = {"parts": [p if "$prim" in p else {"$prim": "a"} for p in R["parts"]]}
        try:
            sub = O.GetDataSpec(R, d)
        except Exception:
            sub = None
        T = G.gen_schema(r, sub if isinstance(sub, (list, dict)) and sub else None, n=r.randint(1, 3), well_typed=True)
        S = G.gen_schema(r, d, n=r.randint(0, 2), well_typed=True)
        R2 = {"parts": [{"$prim": r.choice(["q", "a", 0])}] + ([{"$prim": "z"}] if r.random() < 0.3 else [])}
        yield {"S": S, "T": T, "R": R, "R2": R2, "doc": enc(d)}
        if len(R["parts"]) == 1 and r.random() < 0.5:
            yield {"S": S, "T": T, "R": R, "R2": R2, "doc": enc(d), "root_as": "prim"}
    for key in ("top", "ab", "", 0, 3, 1.5, True):
        d = {key: {"a": 1, "b": ["s"]}, "x": "ok"} if not isinstance(key, int) or isinstance(key, bool) else [{"a": 1}, 2, 3, {"a": "no"}]
        T = {"rules": [{"path": {"parts": [{"$prim": "a"}]}, "cond": G.leaf("ValueDataType", "equal_to", {"$type": "int"})}]}
        yield {"S": {"rules": []}, "T": T, "R": {"parts": [{"$prim": key}]}, "R2": {"parts": [{"$prim": "q"}]}, "doc": enc(d), "root_as": "prim"}


# =========================================================================== C19
def _allowed_exc(e, V):
    if isinstance(e, (V.e.MalformedConditionLikeSpec, V.e.MalformedContainerItemSpec, V.e.MalformedDataPathSpec,
                      V.e.MalformedRuleSpec)):
        return True
    if isinstance(e, KeyError):
        # the missing mandatory field: of a rule, or 'rules' of a schema document (YAML route)
        return bool(e.args) and e.args[0] in ("path", "condition", "rules")
    if type(e) in (TypeError, ValueError):
        return True
    return False


def _parsers(V):
    return {"condition": (V.c.ConditionLike.from_spec, V.c.ConditionLike),
            "part": (V.d.ContainerValue.from_spec, V.d.ContainerValue),
            "path": (V.d.DataPath.from_spec, (V.d.DataPath, dict)),
            "rule": (V.r.Rule.from_spec, V.r.Rule),
            "yaml": (lambda s: V.s.Schema.from_yaml(json.dumps(s)), V.s.Schema)}


@clause("C19", "malformed-specs")
def c19_malformed(w):
    """A spec with an injected definite error is rejected with Malformed*/TypeError/ValueError/KeyError(field);
    any structure is accepted or rejected with one of those - never an internal error."""
    import warnings
    V = ns()
    what, spec, must = w["what"], copy.deepcopy(w["spec"]), w.get("must_reject", False)
    if w.get("encoded"):
        spec = dec(spec)
    parse, cls = _parsers(V)[what]
    tag = w.get("tag", "mutation")
    try:
        with warnings.catch_warnings():
            warnings.simplefilter("ignore")
            obj = parse(spec)
    except RecursionError as e:
        return Fail(f"internal:{what}:RecursionError:{tag}", f"{what} parse of {w['spec']!r} raised RecursionError")
    except Exception as e:
        if _allowed_exc(e, V):
            return None
        return Fail(f"internal:{what}:{exc_sig(e)}", f"{what} parse of {w['spec']!r} [{tag}] raised {e!r}")
    if must:
        return Fail(f"accepted:{what}:{tag}", f"{what} spec with {tag} was accepted: {w['spec']!r} -> {obj!r}")
    if not isinstance(obj, cls):
        return Fail(f"accepted-non-object:{what}", f"{what} parse of {w['spec']!r} returned {obj!r}")
    return None


JUNK = [None, 1, 0, "x", "", [], {}, [1], {"a": 1}, 1.5, True, ["a", {"b": 1}], "value", "path"]
JUNK_ENC = JUNK + [{"$dict": [[1, 1]]}, {"$dict": [[None, "x"]]}]


def _mutate(r, s):
    """One arbitrary structural mutation of a JSON-like spec (returns an *encoded* term)."""
    s = copy.deepcopy(s)
    nodes = []

    def walk(x, path):
        nodes.append(path)
        if isinstance(x, dict):
            for k in x:
                walk(x[k], path + [k])
        elif isinstance(x, list):
            for i, v in enumerate(x):
                walk(v, path + [i])
    walk(s, [])
    path = r.choice(nodes)
    op = r.choice(["replace", "replace", "delete", "rekey", "wrap", "dup"])
    if not path:
        return enc_any(r.choice(JUNK_ENC)) if op == "replace" else ([enc_any(s)] if op == "wrap" else enc_any(s))
    par = s
    for k in path[:-1]:
        par = par[k]
    k = path[-1]
    if op == "replace":
        par[k] = r.choice(JUNK)
    elif op == "delete":
        del par[k]
    elif op == "wrap":
        par[k] = [par[k]]
    elif op == "rekey" and isinstance(par, dict):
        v = par.pop(k)
        nk = r.choice([1, None, "", k.upper() if isinstance(k, str) else "k", str(k) + ".x", "value", "path", 1.5])
        return {"$mut": [enc_any(s), path[:-1], enc_any(nk), enc_any(v)]}
    elif op == "dup" and isinstance(par, dict):
        par[str(k) + "2"] = copy.deepcopy(par[k])
    return enc_any(s)


def enc_any(x):
    try:
        return enc(x)
    except TypeError:
        return x


def _apply_mut(t):
    if isinstance(t, dict) and "$mut" in t:
        s, path, nk, v = t["$mut"]
        s = dec(s)
        par = s
        for k in path:
            par = par[k]
        par[dec(nk)] = dec(v)
        return s
    return dec(t)


@clause("C19", "mutated-specs")
def c19_mutated(w):
    """Arbitrary structural mutations of well-formed specs: accepted, or rejected with a listed error type."""
    w2 = dict(w, spec=_apply_mut(w["spec"]), encoded=False)
    return c19_malformed(w2)


def _wellformed(r):
    d = G.gen_doc(r, 2)
    c = None
    while c is None:
        c = _json_args_only(G.gen_cond(r, r.randint(0, 2), ("value",), well_typed=True))
    part = None
    while part is None:
        part = _json_part(G.gen_part(r, well_typed=True, prim_p=0.0))
    p = None
    while p is None:
        p = G.gen_path(r, 3, well_typed=True, prim_p=0.5, mods=True)
        if not all("$prim" in i or _json_part(i) is not None for i in p["parts"]):
            p = None
    p["parts"] = [i if "$prim" in i else _json_part(i) for i in p["parts"]]
    rt = {"path": {"parts": p["parts"]}, "cond": c}
    if r.random() < 0.5:
        rt["cast"] = r.choice([{"str": "bool"}, {"str": "int"}])
    shape = r.choice(DOC_SHAPES)[0] if r.random() < 0.5 else None
    return {"condition": cond_spec(c, r), "part": r.choice(part_specs(part, r)),
            "path": {".".join(["path"] + p.get("mods", [])): path_part_specs(p, r)}, "rule": rule_spec(rt, r, shape)}


@cases("C19", "mutated-specs")
def c19_mut_gen(r, tier):
    n = 250 if tier == "quick" else 4000
    for _ in range(n):
        wf = _wellformed(r)
        for what in ("condition", "part", "path", "rule"):
            yield {"what": what, "spec": _mutate(r, wf[what])}
        yield {"what": "yaml", "spec": _mutate(r, {"rules": [wf["rule"]]})}


@cases("C19", "malformed-specs")
def c19_gen(r, tier):
    n = 60 if tier == "quick" else 600
    E = lambda what, spec, tag: {"what": what, "spec": spec, "must_reject": True, "tag": tag}
    # fixed definite errors, one per class of the statement
    yield E("condition", {"valu.equal_to": 1}, "unknown-datum-kind")
    yield E("condition", {"item.equal_to": 1}, "unknown-datum-kind")
    yield E("condition", {"value.size.equal_to": 1}, "unknown-pre-processor")
    yield E("condition", {"index.length.equal_to": 1}, "unknown-pre-processor")
    yield E("condition", {"value.equals": 1}, "unknown-callable")
    yield E("condition", {"value.flatten": None}, "unknown-callable")
    yield E("condition", {"value.filter": [1]}, "unknown-callable")
    yield E("condition", {"value.is_null": None}, "unknown-callable")
    yield E("condition", {"value.from_spec": {}}, "unknown-callable")
    yield E("condition", {"index.keys_contain": "a"}, "unknown-callable")
    yield E("condition", {"value.length.keys_contain": "a"}, "unknown-callable")
    yield E("condition", {"value.dtype.equal_to": "integer"}, "unknown-type-name")
    yield E("condition", {"value.is_instance": ["int", "number"]}, "unknown-type-name")
    yield E("condition", {"value.dtype.in": ["str", "text"]}, "unknown-type-name")
    yield E("condition", {"value.in_range": [1]}, "arity")
    yield E("condition", {"value.in_range": [1, 2, 3]}, "arity")
    yield E("condition", {"value.in_range": {"lower": 1}}, "arity")
    yield E("condition", {"value.in_range": {"lower": 1, "upper": 2, "step": 1}}, "arity")
    yield E("condition", {"value.in_range": 5}, "argument-shape")
    yield E("condition", {"value.keys_contain_any_of": "a"}, "argument-shape")
    yield E("condition", {"value.items_contain": ["a", 1]}, "argument-shape")
    yield E("condition", {"value.equal_to": 1, "value.less_than": 2}, "several-keys")
    yield E("condition", {"and": {"value.equal_to": 1}}, "argument-shape")
    yield E("condition", {"value": 1}, "token-count")
    yield E("condition", {"value.length": 1}, "token-count")
    yield E("condition", {"value.length.dtype.equal_to": 1}, "token-count")
    yield E("path", {"path.middle": ["a"]}, "unknown-path-suffix")
    yield E("path", {"path.parts": ["a"]}, "unknown-path-suffix")
    yield E("path", {"path.first.second": ["a", {"type": "map_value"}]}, "unknown-path-suffix")
    yield E("path", {"route": ["a"]}, "unknown-path-key")
    yield E("path", {"path": ["a"], "path.length": ["b"]}, "several-keys")
    yield E("part", {"type": "set_value"}, "unknown-part-type")
    yield E("part", {"type": "map_value", "foo": 1}, "unknown-part-argument")
    yield E("part", {"type": "list_value", "key": {"key.equal_to": "a"}}, "unknown-part-argument")
    yield E("part", {"type": "map_value", "index.equal_to": 0}, "unknown-part-argument")
    yield E("part", {"type": "map_value", "key": {"value.equal_to": 1}}, "wrong-kind")
    yield E("rule", {"path": ["a"], "condition": {"value.truthy": None}, "cast": {"str": "float"}}, "unknown-cast-type")
    yield E("rule", {"path": ["a"], "condition": {"value.truthy": None}, "cast": {"string": "bool"}}, "unknown-cast-type")
    yield E("rule", {"path": ["a"], "condition": {"value.truthy": None}, "cast": {"int": "str"}}, "unknown-cast-type")
    yield E("rule", {"condition": {"value.truthy": None}}, "missing-field")
    yield E("rule", {"path": ["a"]}, "missing-field")
    yield E("yaml", {"rules": [{"path": ["a"]}]}, "missing-field")
    yield E("yaml", {"rules": [{"path": ["a"], "condition": {"value.nope": 1}}]}, "unknown-callable")
    for _ in range(n):
        wf = _wellformed(r)
        cs = wf["condition"]
        if len(cs) == 1 and next(iter(cs)) not in ("and", "or", "xor"):
            k, v = next(iter(cs.items()))
            toks = k.split(".")
            yield E("condition", {".".join(["datum"] + toks[1:]): v}, "unknown-datum-kind")
            yield E("condition", {".".join(toks[:-1] + [toks[-1] + "_x"]): v}, "unknown-callable")
            if k != "value.truthy":
                yield E("condition", {k: v, "value.truthy": None}, "several-keys")
            if len(toks) == 2:
                yield E("condition", {".".join([toks[0], "sz", toks[1]]): v}, "unknown-pre-processor")
        ps = dict(wf["part"])
        yield E("part", dict(ps, type="tuple_value"), "unknown-part-type")
        yield E("part", dict(ps, colour="red"), "unknown-part-argument")
        pk, pv = next(iter(wf["path"].items()))
        yield E("path", {pk + ".nth": pv}, "unknown-path-suffix") if pk.count(".") < 2 else E("path", {"path.nth": pv}, "unknown-path-suffix")
        rs = wf["rule"]
        yield E("rule", {k: v for k, v in rs.items() if k != "path"}, "missing-field")
        yield E("rule", {k: v for k, v in rs.items() if k != "condition"}, "missing-field")
        yield E("rule", dict(rs, cast={"str": "complex"}), "unknown-cast-type")


# =========================================================================== C20
MARK = ['<k1>&"', "a`b<i>", "x&y", "p<q", "'s'"]


class _HTMLCheck(html.parser.HTMLParser):
    def __init__(self):
        super().__init__(convert_charrefs=False)
        self.stack, self.errors, self.tags, self.text = [], [], [], []

    def handle_starttag(self, tag, attrs):
        self.tags.append(tag)
        self.stack.append(tag)
        self.attrs = getattr(self, "attrs", [])
        self.attrs += [(tag, k, v) for k, v in attrs]

    def handle_endtag(self, tag):
        if not self.stack or self.stack[-1] != tag:
            self.errors.append(f"</{tag}> closes {self.stack[-1] if self.stack else 'nothing'}")
        else:
            self.stack.pop()

    def handle_data(self, data):
        self.text.append(data)


def _tree_nodes(tree):
    out = []
    for n in tree:
        out.append(n)
        out += _tree_nodes(n.get("children", []))
    return out


ALLOWED_ATTRS = {"class", "id", "href", "title", "data-node-path"}
ALLOWED_TAGS = {"div", "section", "span", "a", "p", "code", "h1", "h2", "h3", "h4", "h5", "h6", "h7", "h8"}


@clause("C20", "doc-tree")
def c20_tree(w):
    """to_tree: no error for prefix-closed schemas; each rule once with condition and doc; parent precedes
    child and is its path prefix; flat == nested node set; required flag iff an always-applicable
    required_keys names the key.  write_tree_html: every tag closed in order, schema text only escaped."""
    V = ns()
    st = w["schema"]
    S = build_schema(st, V)
    from_path = [dec(x) for x in w.get("from_path", [])]
    kw = {"from_path": from_path} if from_path else {}
    try:
        flat = S.to_tree(nested=False, **kw)
        nested = build_schema(st, V).to_tree(nested=True, **kw)
    except Exception as e:
        return Fail(f"to_tree-raises:{exc_sig(e)}:{_c20_sig(st)}", f"to_tree raised {e!r} for {[show_rule(x) for x in st['rules']]}")
    # each rule exactly once, with its condition and doc
    in_scope = [r_ for r_ in S.rules if [str(p) for p in r_.path.parts][:len(from_path)] == [str(p) for p in V.d.DataPath(*from_path).parts]]
    with_cond = [n for n in flat if "condition" in n]
    if len(with_cond) != len(in_scope):
        return Fail("rule-count", f"{len(in_scope)} rules in scope but {len(with_cond)} tree nodes carry a condition",
                    [n["path_str"] for n in with_cond], [repr(r_.path) for r_ in in_scope])
    for r_ in in_scope:
        hits = [n for n in with_cond if n["condition"] is r_.condition]
        if len(hits) != 1:
            return Fail("rule-once", f"rule {r_!r} appears {len(hits)} times in the tree")
        if hits[0].get("doc") != r_.doc:
            return Fail("rule-doc", f"rule {r_!r} doc", hits[0].get("doc"), r_.doc)
    for i, n in enumerate(flat):
        par = n["parent"]
        if par != -1:
            if not (0 <= par < i):
                return Fail("parent-order", f"node {i} {n['path_str']!r} has parent index {par}")
            if tuple(flat[par]["path_str"]) != tuple(n["path_str"][:-1]):
                return Fail("parent-prefix", f"node {n['path_str']!r} has parent {flat[par]['path_str']!r}")
    a = sorted(repr(tuple(n["path_str"])) for n in flat)
    b = sorted(repr(tuple(n["path_str"])) for n in _tree_nodes(nested))
    if a != b:
        return Fail("flat-vs-nested", "flat and nested forms hold different nodes", b, a)
    # required flag
    want_req = {}
    for rt in st["rules"]:
        cs = O.leaves(rt["cond"])
        only_and = _only_and(rt["cond"])
        if not only_and:
            continue
        base = tuple(str(build_part(p, V)) if "$prim" not in p else str(V.d.DataPath(dec(p["$prim"])).parts[0])
                     for p in rt["path"]["parts"])
        for l in cs:
            if l["m"] == "required_keys" and l["cls"] == "Value":
                for k in l.get("a", []):
                    want_req[base + (str(V.d.DataPath(dec(k)).parts[0]),)] = True
    if not from_path:
        for n in flat:
            k = tuple(n["path_str"])
            if k in want_req and not n.get("required"):
                return Fail("required-flag", f"key node {k!r} is named by an always-applicable required_keys but is not "
                            f"flagged required ({[show_rule(x) for x in st['rules']]})")
            if n.get("required") and k not in want_req:
                return Fail("required-flag-spurious", f"key node {k!r} flagged required without a required_keys condition")
    # HTML
    for anchor in (None, "root"):
        try:
            out = V.s.write_tree_html(nested, anchor_root=anchor)
        except Exception as e:
            return Fail(f"html-raises:{exc_sig(e)}", f"write_tree_html raised {e!r}")
        if not isinstance(out, str):
            return Fail("html-not-str", "write_tree_html result", out, "str")
        chk = _HTMLCheck()
        chk.feed(out)
        chk.close()
        if chk.errors or chk.stack:
            return Fail("html-unbalanced", f"HTML not well-formed: {chk.errors[:2]} open={chk.stack[-3:]}", out[:400])
        bad = [t for t in chk.tags if t not in ALLOWED_TAGS]
        if bad:
            return Fail("html-unescaped-tag", f"schema text produced tags {bad[:3]}", out[:400])
        # schema text inside an attribute value must not end the value: only the writer's own attributes may occur
        bad = [(t, k) for t, k, v in getattr(chk, "attrs", []) if k not in ALLOWED_ATTRS]
        if bad:
            return Fail("html-unescaped-attribute", f"schema text broke out of an attribute value: unexpected attributes {bad[:3]}", out[:400])
        for m in MARK:
            if ("<" in m or "&" in m) and m in out:
                return Fail("html-unescaped-text", f"marker {m!r} appears unescaped in HTML", out[:400])
    return None


def _only_and(c):
    if c["$c"] in ("leaf", "null"):
        return True
    return c["$c"] == "and" and _only_and(c["l"]) and _only_and(c["r"])


def _c20_sig(st):
    ms = sorted({f"{l['cls']}.{l['m']}" for rt in st["rules"] for l in O.leaves(rt["cond"])})
    return "+".join(ms)[:80]


def _c20_cond(r, keys):
    pool = [lambda: G.leaf("ValueDataType", "equal_to", {"$type": r.choice(["dict", "list", "str", "int"])}),
            lambda: G.leaf("ValueDataType", "in_", [{"$type": "str"}, {"$type": "int"}]),
            lambda: G.leaf("Value", "is_instance", {"$type": "int"}, {"$type": "float"}),
            lambda: G.leaf("ValueLength", "equal_to", r.randint(0, 3)),
            lambda: G.leaf("ValueLength", "in_", [1, 2]),
            lambda: G.leaf("Value", "in_", [r.choice(MARK), "b", 3]),
            lambda: G.leaf("Value", "allowed_keys", *r.sample(keys, min(len(keys), r.randint(1, 3)))),
            lambda: G.leaf("Value", "required_keys", *r.sample(keys, min(len(keys), r.randint(1, 2)))),
            lambda: G.leaf("KeyDataType", "equal_to", {"$type": "str"}),
            lambda: G.leaf("Value", "keys_is_instance", {"$type": "str"})]
    leaves = [r.choice(pool)() for _ in range(r.randint(1, 3))]
    c = leaves[0]
    for l in leaves[1:]:
        c = {"$c": "and", "l": c, "r": l}
    return c


@cases("C20", "doc-tree")
def c20_gen(r, tier):
    n = 150 if tier == "quick" else 2500
    for _ in range(n):
        keys = r.sample(["a", "b", MARK[0], "x&y", 0, 1], 3)
        paths = [[]]
        for _ in range(r.randint(1, 4)):
            base = r.choice(paths)
            if len(base) >= 3:
                continue
            x = r.random()
            nxt = {"$prim": r.choice(keys)} if x < 0.6 else ({"$p": "map"} if x < 0.8 else {"$p": "list"})
            if base + [nxt] not in paths:
                paths.append(base + [nxt])
        rules = []
        for p in paths:
            rule = {"path": {"parts": p}, "cond": _c20_cond(r, keys)}
            if r.random() < 0.6:
                rule["doc"] = {"description": [r.choice(MARK) + " text `co<de>` more", "second & para"][:r.randint(1, 2)],
                               "examples": [r.choice(MARK) + " `ex`"][:r.randint(0, 1)]}
            rules.append(rule)
        r.shuffle(rules)
        w = {"schema": {"rules": rules}}
        if r.random() < 0.2 and len(paths) > 1:
            sub = r.choice(paths[1:])
            if all("$prim" in q for q in sub):
                w["from_path"] = [q["$prim"] for q in sub[:1]]
        yield w
