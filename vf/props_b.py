"""Executable clauses for C09-C14, C16, C17 (specs, serialisation round trips, equality, spec
immutability, data-path arguments)."""
import copy
import itertools
import json

from . import gen as G
from . import oracle as O
from .core import clause, cases, Fail, exc_sig, snap
from .terms import (build_cond, build_part, build_path, build_rule, build_schema, dec, enc, ns, show_cond, show_path,
                    show_part, show_rule, BuildError)
from .props_a import teq

PROBE_DOCS = [[0, 1, 2, "a", None, [1, 2], {"a": 1}, 1.5, True, "", "1", -3, 7, 11], {"a": 1, "b": "x", 1: [1], "cc": {"a": 1, "b": 2}},
              [{"a": 1, "b": 2}, {"a": 1}, {}, [], "ab", 4, 6.0], {"a": {"a": 1}, "bb": {"b": 2, "c": 3}, "": 0, 1.5: 2}]


def _filter_probe(c, kinds, docs=PROBE_DOCS):
    V = ns()
    out = []
    for d in docs:
        if "key" in kinds and isinstance(d, list) or "index" in kinds and isinstance(d, dict):
            continue
        try:
            out.append(V.c.ConditionLike.filter(c, d).result)
        except Exception as e:
            out.append(type(e).__name__)
    return out


# --------------------------------------------------------------------------- spec writers (terms -> specs)
def cond_spec(t, r=None):
    """The canonical spec of a condition term (first spelling)."""
    k = t["$c"]
    if k == "null":
        return {}
    if k in ("and", "or", "xor"):
        return {k: [cond_spec(t["l"], r), cond_spec(t["r"], r)]}
    sp = G.leaf_spec_spellings(r, t)
    key, val = sp[0] if r is None else r.choice(sp)
    return {key: dec(val)}


def _as_cond_term(x, cls):
    return O._as_cond(x, cls)


def part_specs(t, r):
    """Spec forms of a (non-primitive) part term: long form and, where possible, shorthands."""
    tname = {"map": "map_value", "list": "list_value", "mol": "map_or_list_value"}[t["$p"]]
    long = {"type": tname}
    short = {"type": tname}
    can_short = True
    for f, cls in (("key", "Key"), ("index", "Index"), ("value", "Value")):
        if f in t:
            ct = _as_cond_term(t[f], cls)
            long[f] = cond_spec(ct)
            if ct["$c"] == "leaf":
                k, v = next(iter(cond_spec(ct).items()))
                short[k] = v
            else:
                short[f] = cond_spec(ct)
    for f in ("condition", "list_condition", "map_condition"):
        if f in t:
            long[f] = cond_spec(t[f])
            short[f] = cond_spec(t[f])
    if "label" in t:
        long["label"] = short["label"] = t["label"]
    out = [long]
    if short != long:
        out.append(short)
    if t["$p"] == "mol":
        out.append({k: v for k, v in long.items() if k != "type"})     # default part type
    # the generic `condition` long form may carry the key / index condition of a map / list part
    f = {"map": "key", "list": "index"}.get(t["$p"])
    if f and f in long and "condition" not in long:
        alt = {("condition" if k == f else k): v for k, v in long.items()}
        out.append(alt)
    return out


def path_part_specs(p, r):
    out = []
    for part in p["parts"]:
        if "$prim" in part:
            out.append(dec(part["$prim"]))
        else:
            out.append(r.choice(part_specs(part, r)))
    return out


def n_pieces(t):
    return sum(1 for f in ("key", "index", "value", "condition", "list_condition", "map_condition") if f in t)


# =========================================================================== C09
@clause("C09", "spec-equals-dsl")
def c09_spec(w):
    """from_spec({'<datum>[.<pre>].<callable>': args}) in any spelling == the DSL-built condition and
    filters identically."""
    V = ns()
    leaf, key, val = w["leaf"], w["key"], dec(w["val"])
    sig0 = f"{leaf['cls']}.{leaf['m']}"
    dsl = build_cond(leaf, V)
    spec = {key: val}
    try:
        got = V.c.ConditionLike.from_spec(copy.deepcopy(spec))
    except Exception as e:
        return Fail(f"raises:{sig0}:{type(e).__name__}", f"from_spec({spec!r}) raised {e!r}; DSL: {show_cond(leaf)}")
    if type(got) is not type(dsl) or not (got == dsl):
        return Fail(f"not-equal:{sig0}", f"from_spec({spec!r}) != {show_cond(leaf)}", repr(got), repr(dsl))
    kinds = O.cond_kinds(leaf)
    a, b = _filter_probe(got, kinds), _filter_probe(dsl, kinds)
    if a != b:
        return Fail(f"behaviour:{sig0}", f"from_spec({spec!r}) filters differently from {show_cond(leaf)}", a, b)
    return None


@cases("C09", "spec-equals-dsl")
def c09_gen(r, tier):
    n = 2 if tier == "quick" else 12
    for cls, m in G.all_leaf_shapes():
        if cls.endswith("DataType") and O.SIG[m] != ("pk", ["value"]):
            # A type pre-processor's spec value *is* a type name (or list of them): the no-argument and
            # several-argument callables have no spec form with type-valued arguments (DESIGN §13).
            continue
        for _ in range(n):
            a, k = G.gen_leaf_args(r, cls, m, spec_form=True)
            t = G.leaf(cls, m, *a, **k)
            for key, val in G.leaf_spec_spellings(r, t):
                yield {"leaf": t, "key": key, "val": val}


@clause("C09", "parse-sequence")
def c09_sequence(w):
    """Parsing a sequence of specs one after the other gives, for each, the DSL-built condition: a parse does not
    depend on which specs were parsed before it."""
    if w.get("fresh_process") and not w.get("_in_child"):
        # state kept between parses (module-level caches) only shows in a process that has parsed nothing else before
        import subprocess, sys, json, os
        code = ("import sys, json, warnings; warnings.simplefilter('ignore'); sys.path[:0] = [%r, %r]\n"
                "from vf import props_a, props_b, props_c\nfrom vf.core import run_clause\n"
                "w = json.loads(sys.stdin.read()); w['_in_child'] = True\nf = run_clause('C09', 'parse-sequence', w)\n"
                "print(json.dumps(f.to_json() if f else None))" % (os.environ.get("VALIDA_SRC", "/repo"),
                                                                    os.path.dirname(os.path.dirname(os.path.abspath(__file__)))))
        r = subprocess.run([sys.executable, "-c", code], input=json.dumps(w), capture_output=True, text=True, timeout=120)
        out = json.loads(r.stdout.strip().splitlines()[-1]) if r.stdout.strip() else None
        if r.returncode != 0:
            raise RuntimeError(f"child failed: {r.stderr[-400:]}")
        return Fail(out["sig"], out["detail"], out["observed"], out["expected"]) if out else None
    V = ns()
    for leaf, key, val in w["items"]:
        dsl = build_cond(leaf, V)
        try:
            got = V.c.ConditionLike.from_spec({key: dec(val)})
        except Exception as e:
            return Fail(f"raises-after-sequence:{leaf['cls']}.{leaf['m']}:{type(e).__name__}",
                        f"after parsing {[k for _, k, _ in w['items']]} in this order, from_spec({{{key!r}: ...}}) raised {e!r}")
        if not (got == dsl):
            return Fail(f"not-equal-after-sequence:{leaf['cls']}.{leaf['m']}", f"from_spec({key!r}) after a sequence of parses", repr(got), repr(dsl))
    return None


@cases("C09", "parse-sequence")
def c09_sequence_gen(r, tier):
    pre = {"Value": ["ValueLength", "ValueDataType"], "Key": ["KeyLength", "KeyDataType"]}
    for base, pcs in pre.items():
        for pc in pcs:
            for m in O.MAPC:
                first = G.leaf(pc, "equal_to", *G.gen_leaf_args(r, pc, "equal_to", spec_form=True)[0])
                a, k = G.gen_leaf_args(r, base, m, spec_form=True)
                second = G.leaf(base, m, *a, **k)
                k1, v1 = G.leaf_spec_spellings(r, first)[0]
                k2, v2 = G.leaf_spec_spellings(r, second)[0]
                yield {"items": [[first, k1, v1], [second, k2, v2]], "fresh_process": True}


@clause("C09", "spec-trees")
def c09_trees(w):
    """and/or/xor spec lists of leaf specs == the DSL combination, nested."""
    V = ns()
    t = w["cond"]
    dsl = build_cond(t, V)
    spec = w["spec"]
    try:
        got = V.c.ConditionLike.from_spec(copy.deepcopy(spec))
    except Exception as e:
        return Fail(f"raises:{exc_sig(e)}", f"from_spec({spec!r}) raised {e!r}")
    if not (got == dsl):
        return Fail("not-equal", f"from_spec({spec!r}) != {show_cond(t)}", repr(got), repr(dsl))
    kinds = O.cond_kinds(t)
    if "key" in kinds and "index" in kinds:
        return None
    a, b = _filter_probe(got, kinds), _filter_probe(dsl, kinds)
    if a != b:
        return Fail("behaviour", f"from_spec({spec!r}) filters differently from {show_cond(t)}", a, b)
    return None


@cases("C09", "spec-trees")
def c09_trees_gen(r, tier):
    n = 150 if tier == "quick" else 2000
    for _ in range(n):
        kinds = r.choice([("value",), ("value", "key"), ("value", "index")])
        t = G.gen_cond(r, r.randint(1, 3), kinds, well_typed=True)
        t = _json_args_only(t)
        if t is None:
            continue
        yield {"cond": t, "spec": enc_spec(cond_spec(t, r))}


def enc_spec(s):
    return s


def _json_ok(v):
    if isinstance(v, dict):
        if "$type" in v:
            return True
        if "$dict" in v or "$tuple" in v or "$path" in v:
            return False
        return all(_json_ok(x) for x in v.values())
    if isinstance(v, list):
        return all(_json_ok(x) for x in v)
    return True


def _json_args_only(t):
    if t["$c"] == "leaf":
        if all(_json_ok(a) for a in t.get("a", [])) and all(_json_ok(a) for a in t.get("k", {}).values()):
            return t
        return None
    if t["$c"] == "null":
        return t
    l, rr = _json_args_only(t["l"]), _json_args_only(t["r"])
    if l is None or rr is None:
        return None
    return dict(t, l=l, r=rr)


# =========================================================================== C10
def _path_probe(p, docs=PROBE_DOCS):
    out = []
    for d in docs:
        try:
            out.append(repr(p.get_data(d, return_paths=True)))
        except Exception as e:
            out.append(type(e).__name__)
    return out


@clause("C10", "part-specs")
def c10_parts(w):
    """ContainerValue.from_spec(part spec) == the API-built part (same pieces) and selects identically."""
    V = ns()
    t, spec = w["part"], w["spec"]
    api = build_part(t, V)
    try:
        got = V.d.ContainerValue.from_spec(copy.deepcopy(spec))
    except Exception as e:
        return Fail(f"raises:{exc_sig(e)}", f"ContainerValue.from_spec({spec!r}) raised {e!r}; API: {show_part(t)}")
    if type(got) is not type(api):
        return Fail("class", f"from_spec({spec!r})", type(got).__name__, type(api).__name__)
    if got.label != api.label:
        return Fail("label", f"from_spec({spec!r}) label", got.label, api.label)
    if n_pieces(t) <= 2 and not (got == api):
        return Fail(f"not-equal:{t['$p']}", f"from_spec({spec!r}) != {show_part(t)}", repr(got), repr(api))
    a, b = _path_probe(V.d.DataPath(got)), _path_probe(V.d.DataPath(api))
    if a != b:
        return Fail(f"behaviour:{t['$p']}", f"from_spec({spec!r}) selects differently from {show_part(t)}", a, b)
    return None


@cases("C10", "part-specs")
def c10_parts_gen(r, tier):
    n = 200 if tier == "quick" else 3000
    for _ in range(n):
        t = G.gen_part(r, well_typed=True, prim_p=0.0)
        t2 = _json_part(t)
        if t2 is None:
            continue
        for s in part_specs(t2, r):
            yield {"part": t2, "spec": s}


def _json_part(t):
    out = dict(t)
    for f in ("key", "index", "value", "condition", "list_condition", "map_condition"):
        if f in out and isinstance(out[f], dict) and "$c" in out[f]:
            c = _json_args_only(out[f])
            if c is None:
                return None
            out[f] = c
    return out


@clause("C10", "path-specs")
def c10_paths(w):
    """DataPath.from_spec({'path[.suffixes]': parts}) / from_part_specs == API-built path with the same
    modifiers (either suffix order, aliases, any case) and resolves identically."""
    V = ns()
    p, key, parts = w["path"], w["key"], w["parts"]
    api = build_path(p, V)
    spec = {key: parts}
    try:
        got = V.d.DataPath.from_spec(copy.deepcopy(spec))
    except Exception as e:
        return Fail(f"raises:{exc_sig(e)}", f"DataPath.from_spec({spec!r}) raised {e!r}; API: {show_path(p)}")
    if not isinstance(got, V.d.DataPath):
        return Fail("not-a-path", f"DataPath.from_spec({spec!r})", repr(got), show_path(p))
    if got.DATUM_TYPE != api.DATUM_TYPE or got.MULTI_TYPE != api.MULTI_TYPE or got.is_concrete != api.is_concrete:
        return Fail("modifiers", f"DataPath.from_spec({spec!r}) modifiers", (got.DATUM_TYPE, got.MULTI_TYPE),
                    (api.DATUM_TYPE, api.MULTI_TYPE))
    if all(("$prim" in i) or n_pieces(i) <= 2 for i in p["parts"]) and not (got == api):
        return Fail("not-equal", f"DataPath.from_spec({spec!r}) != {show_path(p)}", repr(got), repr(api))
    a, b = _path_probe(got), _path_probe(api)
    if a != b:
        return Fail("behaviour", f"DataPath.from_spec({spec!r}) resolves differently from {show_path(p)}", a, b)
    return None


_SUFFIX = {"dtype": ["dtype", "type"], "length": ["length", "len"], "map_keys": ["map_keys"], "map_values": ["map_values"],
           "first": ["first"], "last": ["last"], "single": ["single"], "all": ["all"]}


@cases("C10", "path-specs")
def c10_paths_gen(r, tier):
    n = 200 if tier == "quick" else 3000
    for _ in range(n):
        p = G.gen_path(r, 3, well_typed=True, prim_p=0.5, mods=True)
        parts = []
        ok = True
        for i, part in enumerate(p["parts"]):
            if "$prim" not in part:
                part = _json_part(part)
                if part is None:
                    ok = False
                    break
                p["parts"][i] = part
        if not ok:
            continue
        key = ".".join(["path"] + [r.choice(_SUFFIX[m]) for m in p.get("mods", [])])
        key = r.choice([key, key.upper(), key.title()])
        yield {"path": p, "key": key, "parts": path_part_specs(p, r)}


@clause("C10", "path-strings")
def c10_strings(w):
    """DataPath.from_str: a segment that reads as an int selects key-as-text, key-as-int or list index;
    as a float key-as-text or key-as-float; anything else the text key."""
    V = ns()
    segs, delim, doc = w["segs"], w["delim"], dec(w["doc"])
    s = delim.join(segs)
    try:
        got = V.d.DataPath.from_str(s, delimiter=delim) if delim != "/" else V.d.DataPath.from_str(s)
    except Exception as e:
        return Fail(f"raises:{exc_sig(e)}", f"DataPath.from_str({s!r}) raised {e!r}")
    parts = []
    for seg in (segs if s else []):
        def num(f):
            try:
                return f(seg)
            except ValueError:
                return None
        i, fl = num(int), num(float)
        if i is not None:
            parts.append({"$p": "mol", "key": {"$c": "leaf", "cls": "Key", "m": "in_", "a": [{"$tuple": [seg, i]}]}, "index": i})
        elif fl is not None:
            parts.append({"$p": "map", "key": {"$c": "leaf", "cls": "Key", "m": "in_", "a": [{"$tuple": [seg, fl]}]}})
        else:
            parts.append({"$prim": seg})
    want = [(v, cp) for v, cp in O.Walk(parts, doc)]
    try:
        g = got.get_data(doc, return_paths=True)
    except Exception as e:
        return Fail(f"get-raises:{exc_sig(e)}", f"DataPath.from_str({s!r}).get_data({doc!r}) raised {e!r}")
    if not parts:
        want_v = (doc, ())
    elif got.is_concrete:
        want_v = want[0] if want else None
    else:
        want_v = want
    if not teq(g, want_v):
        return Fail("selection", f"DataPath.from_str({s!r}, {delim!r}) on {doc!r}", g, want_v)
    return None


@cases("C10", "path-strings")
def c10_strings_gen(r, tier):
    n = 150 if tier == "quick" else 2000
    docs = [{"a": {"1": "s", 1: "i", "b": [10, 20]}, "1": [5, 6], 1: {"1.5": "fs", 1.5: "f"}, "1.5": 7, 1.5: {"a": 0}},
            [[1, 2], {"0": "z", 0: "i"}, "x"], {"x y": 1, "": {"a": 2}}]
    yield {"segs": [], "delim": "/", "doc": enc(docs[0])}
    # segments that Python reads as numbers although they do not look like plain digits (what `int()` / `float()` accept)
    odd = {"limits": {float("inf"): 5, "inf": 6, " 1": "t", 1: "i", "+1": "p", 10: "ten", "1_0": "u", 0.5: "h", ".5": "hs", -float("inf"): 0},
           "rows": ["r0", "r1", "r2"]}
    for seg in ("inf", "Infinity", "-inf", "+inf", " 1", "1 ", "+1", "1_0", ".5", "5.", "1e0", "0x1", "٣"):
        yield {"segs": ["limits", seg], "delim": "/", "doc": enc(odd)}
        yield {"segs": ["rows", seg], "delim": "/", "doc": enc(odd)}
        yield {"segs": [seg], "delim": "/", "doc": enc({seg: 1, "k": 2})}
    for _ in range(n):
        segs = [r.choice(["a", "b", "1", "0", "1.5", "x y", "-1", "1e0"]) for _ in range(r.randint(1, 3))]
        yield {"segs": segs, "delim": r.choice(["/", "/", ".", "::"]) if not any("." in s for s in segs) else "/",
               "doc": enc(r.choice(docs))}


def rule_spec(t, r, doc_shape=None):
    s = {"path": path_part_specs(t["path"], r), "condition": cond_spec(t["cond"], r)}
    if t.get("cast"):
        s["cast"] = dict(t["cast"])
    if doc_shape is not None:
        s["doc"] = copy.deepcopy(doc_shape)
    return s


DOC_SHAPES = [
    ("one line\n", {"description": ["one line"], "examples": []}),
    (["para 1 \n", "para `code` 2"], {"description": ["para 1", "para `code` 2"], "examples": []}),
    ({"description": "d <b>\n", "examples": ["ex 1\n"]}, {"description": ["d <b>"], "examples": ["ex 1"]}),
    ({"description": ["d1", "d2 "]}, {"description": ["d1", "d2"], "examples": []}),
    ({"examples": ["only ex "]}, {"description": [], "examples": ["only ex"]}),
    ({"description": [], "examples": []}, {"description": [], "examples": []}),
]


@clause("C10", "rule-specs")
def c10_rules(w):
    """Rule.from_spec / Schema.from_yaml == the API-built rule / schema (path, condition, cast) with the
    doc normalised to lists of stripped paragraphs, validating identically."""
    V = ns()
    rt, spec, doc_want, docs = w["rule"], w["spec"], w.get("doc_want"), [dec(d) for d in w["docs"]]
    api = build_rule(rt, V)
    routes = {"Rule.from_spec": lambda: V.r.Rule.from_spec(copy.deepcopy(spec)),
              "Schema.from_yaml": lambda: V.s.Schema.from_yaml(json.dumps({"rules": [spec]})).rules[0],
              "Schema.init_rules": lambda: V.s.Schema.init_rules([copy.deepcopy(spec)])[0]}
    for name, f in routes.items():
        try:
            got = f()
        except Exception as e:
            return Fail(f"raises:{name}:{exc_sig(e)}", f"{name}({spec!r}) raised {e!r}")
        simple = all(("$prim" in i) or n_pieces(i) <= 2 for i in rt["path"]["parts"])
        if simple and not (got == api):
            return Fail(f"not-equal:{name}", f"{name}({spec!r}) != {show_rule(rt)}", repr(got), repr(api))
        if snap(got.cast) != snap(api.cast):
            return Fail(f"cast:{name}", f"{name}({spec!r}) cast", repr(got.cast), repr(api.cast))
        if "doc" in spec and not (isinstance(got.doc, dict) and sorted(got.doc) == sorted(doc_want) and all(
                teq(got.doc[k], doc_want[k]) for k in doc_want)):
            return Fail(f"doc:{name}", f"{name}: doc {spec['doc']!r} normalised", got.doc, doc_want)
        for d in docs:
            try:
                a = V.s.Schema([got]).validate(copy.deepcopy(d))
                b = V.s.Schema([api]).validate(copy.deepcopy(d))
                ra = (a.is_valid, a.num_failures, a.num_rules_tested, repr(a.cast_data))
                rb = (b.is_valid, b.num_failures, b.num_rules_tested, repr(b.cast_data))
            except Exception as e:
                continue                                             # C07's business
            if ra != rb:
                return Fail(f"behaviour:{name}", f"{name}({spec!r}) validates {d!r} differently from API rule", ra, rb)
    return None


@cases("C10", "rule-specs")
def c10_rules_gen(r, tier):
    n = 120 if tier == "quick" else 1500
    for i in range(n):
        d = G.gen_doc(r, 3)
        rt = G.gen_rule(r, d, well_typed=True, cast_p=0.4)
        rt["cond"] = _json_args_only(rt["cond"])
        ok = rt["cond"] is not None
        for j, part in enumerate(rt["path"]["parts"]):
            if "$prim" not in part:
                pj = _json_part(part)
                if pj is None:
                    ok = False
                    break
                rt["path"]["parts"][j] = pj
        if not ok:
            continue
        shape, want = (None, None)
        if r.random() < 0.6:
            shape, want = r.choice(DOC_SHAPES)
        yield {"rule": rt, "spec": rule_spec(rt, r, shape), "doc_want": want, "docs": [enc(d), enc(G.gen_doc(r, 2))]}


# =========================================================================== C11
def _c11_leaf(r):
    """A leaf of the 'meaningful DSL' fragment of C11 with JSON-like / type / path arguments."""
    cls = r.choice(["Value", "Value", "Key", "Index", "ValueLength", "KeyLength", "ValueDataType", "KeyDataType"])
    if cls.endswith("Length"):
        m = r.choice(["equal_to", "not_equal_to", "less_than", "greater_than", "less_than_or_equal_to",
                      "greater_than_or_equal_to", "in_range", "not_in_range"])
    elif cls.endswith("DataType"):
        m = r.choice(["equal_to", "not_equal_to", "in_", "not_in"])
    else:
        m = r.choice(O.CLS_CALLABLES[cls])
    a, k = G.gen_leaf_args(r, cls, m, well_typed=True)
    t = G.leaf(cls, m, *a, **k)
    if not (all(_json_ok(x) for x in t.get("a", [])) and all(_json_ok(x) for x in t.get("k", {}).values())):
        return _c11_leaf(r)
    x = r.random()
    if x < 0.12 and m in ("equal_to", "not_equal_to", "less_than", "greater_than", "in_", "not_in") and not cls.endswith("DataType"):
        t["a"] = [{"$path": r.choice([{"parts": [{"$prim": "a"}]}, {"parts": [{"$prim": "a"}, {"$prim": 0}]},
                                      {"parts": [{"$p": "map"}], "mods": ["first"]},
                                      {"parts": [{"$prim": "b"}], "mods": ["length"]}])}]
    elif x < 0.2 and m in ("equal_to", "not_equal_to") and cls == "Value":
        t["a"] = [r.choice([{"path": ["a"]}, {"path.length": ["b"]}, {"a": {"path": [1]}}, {"\\path": 1}])]
    return t


def _c11_cond(r, depth):
    if depth == 0 or r.random() < 0.5:
        return _c11_leaf(r)
    return {"$c": r.choice(["and", "or", "xor"]), "l": _c11_cond(r, depth - 1), "r": _c11_cond(r, depth - 1)}


def _has_key_and_index(t):
    k = O.cond_kinds(t)
    return "key" in k and "index" in k


@clause("C11", "condition-json-round-trip")
def c11_roundtrip(w):
    """to_json_like() is pure JSON data, rebuilds to an equal, identically filtering condition, and
    serialising the rebuilt condition gives the same data."""
    V = ns()
    t = w["cond"]
    c = build_cond(t, V)
    sig0 = _c11_sig(t)
    try:
        js = c.to_json_like()
    except Exception as e:
        return Fail(f"to_json-raises:{type(e).__name__}:{sig0}", f"{show_cond(t)}.to_json_like() raised {e!r}")
    try:
        js2 = json.loads(json.dumps(js))
    except Exception as e:
        return Fail(f"not-json:{sig0}", f"{show_cond(t)}.to_json_like() = {js!r} is not JSON-serialisable ({e!r})")
    if not teq(js2, js):
        return Fail(f"json-changes:{sig0}", f"{show_cond(t)}.to_json_like() does not survive json round trip", js2, js)
    try:
        c2 = V.c.ConditionLike.from_json_like(copy.deepcopy(js2))
    except Exception as e:
        return Fail(f"from_json-raises:{type(e).__name__}:{sig0}", f"from_json_like({js2!r}) raised {e!r} (from {show_cond(t)})")
    if not (c2 == c):
        return Fail(f"not-equal:{sig0}", f"round trip of {show_cond(t)} via {js2!r}", repr(c2), repr(c))
    kinds = O.cond_kinds(t)
    a, b = _filter_probe(c2, kinds), _filter_probe(c, kinds)
    if a != b:
        return Fail(f"behaviour:{sig0}", f"round trip of {show_cond(t)} filters differently", a, b)
    try:
        js3 = c2.to_json_like()
    except Exception as e:
        return Fail(f"to_json2-raises:{type(e).__name__}:{sig0}", f"re-serialising raised {e!r}")
    if not teq(js3, js):
        return Fail(f"not-stable:{sig0}", f"re-serialising {show_cond(t)} gives different data", js3, js)
    return None


def _c11_sig(t):
    ls = O.leaves(t)
    if len(ls) == 1 and t["$c"] == "leaf":
        l = ls[0]
        kind = "path-arg" if any(isinstance(a, dict) and "$path" in a for a in l.get("a", [])) else (
            "pathlike-literal" if any(isinstance(a, dict) and "$type" not in a and not ("$path" in a) and any(
                "path" in str(k) for k in _keys_deep(a)) for a in l.get("a", [])) else "plain")
        return f"{l['cls']}.{l['m']}:{kind}"
    return "tree"


def _keys_deep(a):
    out = []
    if isinstance(a, dict):
        for k, v in a.items():
            out.append(k)
            out += _keys_deep(v)
    elif isinstance(a, list):
        for v in a:
            out += _keys_deep(v)
    return out


@cases("C11", "condition-json-round-trip")
def c11_gen(r, tier):
    n = 400 if tier == "quick" else 6000
    for cls in ("Value", "Key", "Index"):
        for m in O.CLS_CALLABLES[cls]:
            a, k = G.gen_leaf_args(r, cls, m, well_typed=True)
            t = G.leaf(cls, m, *a, **k)
            if all(_json_ok(x) for x in t.get("a", [])):
                yield {"cond": t}
    for lit in ({"path": ["a"]}, {"Path": ["a"]}, {"PATH.Length": ["b"]}, {"\\Path": 1, "x": 2}, {"\\path": 1}, {"a": {"path": [1]}}, {"path.length": ["b"]}, {"k": [{"path": [1]}]},
                [{"path": ["a"]}, 2], {"x.path": 1, "y": 2}):
        yield {"cond": G.leaf("Value", "equal_to", lit)}
        yield {"cond": G.leaf("Value", "in_", [lit, 3])}
    yield {"cond": G.leaf("Value", "in_range", {"$path": {"parts": [{"$prim": "a"}]}}, 9)}
    yield {"cond": G.leaf("Value", "equal_to", [{"$path": {"parts": [{"$p": "map"}], "mods": ["first"]}}, 2])}
    yield {"cond": G.leaf("Value", "items_contain", k={"$path": {"parts": [{"$prim": "b"}], "mods": ["length"]}})}
    for _ in range(n):
        t = _c11_cond(r, r.randint(0, 2))
        if _has_key_and_index(t):
            continue
        yield {"cond": t}


# =========================================================================== C12
@clause("C12", "part-specs-round-trip")
def c12_roundtrip(w):
    """to_part_specs() raises, or yields JSON-compatible specs whose rebuilt path selects the same nodes
    with the same concrete paths on every document (and == the original when that was built from specs)."""
    V = ns()
    p = w["path"]
    if "from_specs" in w:
        try:
            path = V.d.DataPath.from_part_specs(*copy.deepcopy(w["from_specs"]))
        except Exception as e:
            return Fail(f"construct:{exc_sig(e)}", f"from_part_specs({w['from_specs']!r}) raised {e!r}")
    else:
        path = build_path(p, V)
    try:
        specs = path.to_part_specs()
    except Exception:
        return None                                                   # refusing is allowed
    try:
        specs2 = json.loads(json.dumps(specs))
    except Exception as e:
        return Fail("not-json:" + _c12_sig(p), f"{show_path(p)}.to_part_specs() = {specs!r} is not JSON ({e!r})")
    try:
        path2 = V.d.DataPath.from_part_specs(*copy.deepcopy(specs2))
    except Exception as e:
        return Fail(f"rebuild-raises:{type(e).__name__}:" + _c12_sig(p), f"from_part_specs(*{specs2!r}) raised {e!r} (from {show_path(p)})")
    docs = PROBE_DOCS + [dec(d) for d in w.get("docs", [])]
    a, b = _path_probe(path2, docs), _path_probe(path, docs)
    if a != b:
        i = next(i for i in range(len(a)) if a[i] != b[i])
        return Fail("selects-differently:" + _c12_sig(p), f"{show_path(p)} -> specs {specs2!r} -> rebuilt path selects differently on {docs[i]!r}", a[i], b[i])
    if "from_specs" in w and not (path2 == path):
        return Fail("not-equal:" + _c12_sig(p), f"rebuilt path != original built from specs {w['from_specs']!r}", repr(path2), repr(path))
    return None


def _c12_sig(p):
    out = []
    for part in p["parts"]:
        if "$prim" in part:
            out.append("prim")
            continue
        s = part["$p"]
        for f in ("key", "index", "value", "condition", "label"):
            if f in part:
                x = part[f]
                if isinstance(x, dict) and "$c" in x:
                    s += f"+{f}:" + (x["m"] if x["$c"] == "leaf" else x["$c"])
                else:
                    s += f"+{f}:prim" if f != "label" else "+label"
        out.append(s)
    return ",".join(sorted(set(out)))


@cases("C12", "part-specs-round-trip")
def c12_gen(r, tier):
    n = 400 if tier == "quick" else 6000
    fixed = [{"parts": [{"$p": "map", "key": G.leaf("Key", "greater_than", "a")}]},
             {"parts": [{"$p": "map", "key": G.leaf("Key", "in_", ["a", "b"])}]},
             {"parts": [{"$p": "list", "value": G.leaf("Value", "equal_to", 3)}]},
             {"parts": [{"$p": "list", "index": 2}]}, {"parts": [{"$p": "map", "key": "a", "label": "L"}]},
             {"parts": [{"$p": "mol", "key": "a", "index": 0}]}, {"parts": [{"$prim": "a"}, {"$prim": 0}, {"$p": "map"}, {"$p": "list"}]}]
    for p in fixed:
        yield {"path": p, "docs": []}
    # a combination of two conditions of the same class and callable (only the arguments differ): both survive the round trip
    both = lambda op, a, b: {"$c": op, "l": a, "r": b}
    kne = both("and", G.leaf("Key", "not_equal_to", "a"), G.leaf("Key", "not_equal_to", "b"))
    vne = both("and", G.leaf("Value", "not_equal_to", 1), G.leaf("Value", "not_equal_to", 2))
    ine = both("and", G.leaf("Index", "not_equal_to", 0), G.leaf("Index", "not_equal_to", 2))
    vor = both("or", G.leaf("Value", "equal_to", 1), G.leaf("Value", "equal_to", 3))
    vin = both("and", G.leaf("Value", "is_instance", {"$type": "int"}), G.leaf("Value", "is_instance", {"$type": "bool"}))
    dd = [enc({"cfg": {"a": 1, "b": 2, "c": 3}, "xs": [1, 2, 3, True]}), enc([{"a": 1, "c": 2}, [1, 2, 3]])]
    for parts in ([{"$prim": "cfg"}, {"$p": "map", "key": kne}], [{"$prim": "cfg"}, {"$p": "map", "value": vne}],
                  [{"$prim": "xs"}, {"$p": "list", "index": ine}], [{"$prim": "xs"}, {"$p": "list", "value": vor}],
                  [{"$prim": "xs"}, {"$p": "list", "value": vin}], [{"$p": "mol"}, {"$p": "mol", "value": vne}],
                  [{"$p": "mol"}, {"$p": "map", "key": kne, "value": vne}]):
        w = {"path": {"parts": copy.deepcopy(parts)}, "docs": dd}
        yield w
        pj = [i if "$prim" in i else _json_part(copy.deepcopy(i)) for i in parts]
        if all(i is not None for i in pj):
            yield {"path": {"parts": pj}, "docs": dd, "from_specs": path_part_specs({"parts": pj}, r)}
    for _ in range(n):
        d = G.gen_doc(r, 3)
        p = G.gen_path(r, 3, well_typed=True, prim_p=0.35)
        w = {"path": p, "docs": [enc(d)]}
        if r.random() < 0.4:
            ok = True
            for j, part in enumerate(p["parts"]):
                if "$prim" not in part:
                    pj = _json_part(part)
                    if pj is None:
                        ok = False
                        break
                    p["parts"][j] = pj
            if ok:
                w["from_specs"] = path_part_specs(p, r)
        yield w
    for s in ("a/1/b", "1.5/x", "0"):
        yield {"path": {"parts": []}, "docs": [], "from_str": s}


# =========================================================================== C13
@clause("C13", "rule-schema-json-round-trip")
def c13_roundtrip(w):
    """Rule / Schema -> to_json_like -> JSON text -> from_json_like == original; same verdicts, failures
    and cast data on every document; casts included."""
    V = ns()
    st, docs = w["schema"], [dec(d) for d in w["docs"]]
    S = build_schema(st, V)
    for add in w.get("add", []):
        S.add_schema(build_schema(add["schema"], V), build_path(add["root"], V))
    for what, obj, cls in [("Schema", S, V.s.Schema)] + [("Rule", rr, V.r.Rule) for rr in S.rules]:
        has_cast = any(x.get("cast") for x in st["rules"])
        tag = f"{what}:{'cast' if has_cast else 'nocast'}"
        try:
            js = obj.to_json_like()
        except Exception as e:
            return None if _refuses(e) else Fail(f"to_json-raises:{tag}:{exc_sig(e)}", f"{what}.to_json_like() raised {e!r} ({[show_rule(x) for x in st['rules']]})")
        try:
            text = json.dumps(js)
        except Exception as e:
            return Fail(f"not-json:{tag}", f"{what}.to_json_like() = {js!r} is not JSON ({e!r})")
        try:
            obj2 = cls.from_json_like(json.loads(text))
        except Exception as e:
            return Fail(f"from_json-raises:{tag}:{exc_sig(e)}", f"{what}.from_json_like({text}) raised {e!r}")
        if not (obj2 == obj):
            return Fail(f"not-equal:{tag}", f"{what} round trip via {text}", repr(obj2), repr(obj))
        for d in docs:
            ra, rb = _observe(obj, copy.deepcopy(d)), _observe(obj2, copy.deepcopy(d))
            if ra != rb:
                return Fail(f"behaviour:{tag}", f"{what} round trip via {text} validates {d!r} differently", rb, ra)
    return None


def _refuses(e):
    return False


def _observe(obj, d):
    V = ns()
    try:
        if isinstance(obj, V.s.Schema):
            vd = obj.validate(d)
            return (vd.is_valid, vd.num_failures, vd.num_rules_tested,
                    [(f.index, repr(f.path), repr(f.value)) for t in vd.rule_tests for f in t.failures], repr(vd.cast_data))
        t = obj.test(d)
        return (t.is_valid, t.tested, [(f.index, repr(f.path), repr(f.value)) for f in t.failures], repr(t.data.get_original()))
    except Exception as e:
        return type(e).__name__


def _serialisable_path(r, d):
    """Paths in the fragment to_part_specs can serialise: primitives and bare map/list parts."""
    p = G.path_into(r, d, fan_p=0.3)
    parts = []
    for part in p["parts"]:
        if "$prim" in part:
            parts.append(part)
        elif part["$p"] in ("map", "list") and n_pieces(part) == 0:
            parts.append(part)
        elif part["$p"] == "list" and "index" in part:
            parts.append({"$prim": part["index"]})
        else:
            parts.append({"$p": "map"} if isinstance(d, dict) else {"$p": "list"})
    return {"parts": parts}


@cases("C13", "rule-schema-json-round-trip")
def c13_gen(r, tier):
    n = 200 if tier == "quick" else 3000
    T = G.leaf("Value", "truthy")
    for cast in ({}, {"str": "bool"}, {"str": "int"}):
        yield {"schema": {"rules": [{"path": {"parts": [{"$prim": "a"}]}, "cond": T, "cast": cast}]},
               "docs": [enc({"a": "1"}), enc({"a": "true", "b": 2})]}
    deep = {"path": {"parts": [{"$prim": "cfg"}, {"$prim": "limits"}, {"$prim": "max"}]}, "cond": G.leaf("Value", "less_than", 11), "cast": {"str": "int"}}
    sub = {"path": {"parts": [{"$prim": "max"}]}, "cond": G.leaf("ValueDataType", "equal_to", {"$type": "int"}), "cast": {"str": "int"}}
    top = {"path": {"parts": []}, "cond": G.leaf("ValueDataType", "equal_to", {"$type": "dict"})}
    yield {"schema": {"rules": [deep]}, "add": [{"schema": {"rules": [top, sub]}, "root": {"parts": [{"$prim": "cfg"}]}}],
           "docs": [enc({"cfg": {"limits": {"max": "10"}, "max": "3"}}), enc({"cfg": [1]})]}
    yield {"schema": {"rules": [deep]}, "add": [{"schema": {"rules": [sub]}, "root": {"parts": [{"$prim": "cfg"}, {"$prim": "limits"}]}}],
           "docs": [enc({"cfg": {"limits": {"max": "10"}}}), enc({"cfg": {"limits": {"max": "x"}}}), enc({"cfg": {"limits": {"max": 11}}})]}
    # the same rule more than once (given twice, or one sub-schema mounted twice): a schema is a list of rules, not a set
    items = {"path": {"parts": [{"$prim": "items"}, {"$p": "list"}]}, "cond": G.leaf("Value", "greater_than", 1), "cast": {"str": "int"}}
    yield {"schema": {"rules": [items, items]}, "docs": [enc({"items": ["5", "0", 3, 1]}), enc({"items": []})]}
    yield {"schema": {"rules": [top]}, "add": [{"schema": {"rules": [sub]}, "root": {"parts": [{"$prim": "cfg"}]}},
                                               {"schema": {"rules": [sub]}, "root": {"parts": [{"$prim": "cfg"}]}}],
           "docs": [enc({"cfg": {"max": "3"}}), enc({"cfg": {"max": "x"}})]}
    # rules of one schema whose paths differ only in the type of a numerically equal part (1 / 1.0 / True, 0 / 0.0 / False):
    # each rule is rebuilt with its own path
    gt = G.leaf("Value", "greater_than", 5)
    P = lambda *parts: {"parts": [{"$prim": q} for q in parts]}
    for paths, docs in (
            ([P("a", 1), P("a", 1.0)], [{"a": ["x", "7"]}, {"a": {1.0: "9", "k": 0}}]),
            ([P("a", 1.0), P("a", 1)], [{"a": ["x", "7"]}, {"a": [1, 2]}]),
            ([P("a", True), P("a", 1), P("a", 1.0)], [{"a": [0, 9]}, {"a": {True: 9}}]),
            ([P(0), P(0.0), P(False)], [[9, 1], {0.0: 9}]),
            ([P("b", 0, "c"), P("b", 0.0, "c")], [{"b": [{"c": 9}]}, {"b": {0.0: {"c": 1}}}])):
        for order in (paths, paths[::-1]):
            rules = [{"path": copy.deepcopy(pp), "cond": gt, "cast": {"str": "int"}} for pp in order]
            yield {"schema": {"rules": rules}, "docs": [enc(x) for x in docs]}
    for _ in range(n):
        d = G.gen_doc(r, 3)
        rules = []
        for _ in range(r.randint(1, 3)):
            if rules and r.random() < 0.15:
                rules.append(copy.deepcopy(r.choice(rules)))
                continue
            c = _c11_cond(r, r.randint(0, 2))
            if O.cond_kinds(c) - {"value"}:
                continue
            if any(isinstance(a, dict) and ("$path" in a) for l in O.leaves(c) for a in l.get("a", [])):
                continue
            rule = {"path": _serialisable_path(r, d), "cond": c}
            if r.random() < 0.4:
                rule["cast"] = r.choice([{"str": "bool"}, {"str": "int"}, {"str": "bool"}])
            rules.append(rule)
        if rules:
            yield {"schema": {"rules": rules}, "docs": [enc(d), enc(G.gen_doc(r, 2))]}


# =========================================================================== C14
def _mutate_atom(r, t):
    """One-atom change of a condition / part / path / rule term; returns (new term, description) or None."""
    t = copy.deepcopy(t)
    return t


@clause("C14", "equality")
def c14_equality(w):
    """== is reflexive, symmetric, transitive; rebuilt copies and commuted combinations are equal; equal
    objects behave identically."""
    V = ns()
    kind = w["kind"]
    build = {"cond": build_cond, "part": build_part, "path": build_path, "rule": build_rule, "schema": build_schema}[kind]
    terms = w["terms"]
    try:
        objs = [build(t, V) for t in terms]
    except BuildError:
        return None                                                  # variant is not a term of the DSL
    relation = w["relation"]            # 'rebuilt' | 'commuted' | 'atom' | 'triple'
    x, y = objs[0], objs[1]
    sig0 = f"{kind}:{relation}:{w.get('what', '')}"
    try:
        exy, eyx, exx = (x == y), (y == x), (x == x)
    except Exception as e:
        return Fail(f"eq-raises:{sig0}:{type(e).__name__}", f"== raised {e!r} on {_show(kind, terms[0])} vs {_show(kind, terms[1])}")
    if exx is not True:
        return Fail(f"reflexive:{sig0}", f"x == x is {exx!r} for {_show(kind, terms[0])}")
    if bool(exy) != bool(eyx):
        return Fail(f"symmetric:{sig0}", f"x == y is {exy!r} but y == x is {eyx!r}", _show(kind, terms[0]), _show(kind, terms[1]))
    if relation in ("rebuilt", "commuted") and not exy:
        return Fail(f"{relation}-unequal:{sig0}", f"{_show(kind, terms[0])} != {_show(kind, terms[1])}")
    if len(objs) == 3:
        z = objs[2]
        if (x == y) and (y == z) and not (x == z):
            return Fail(f"transitive:{sig0}", "x == y and y == z but x != z", [_show(kind, t) for t in terms])
    if exy:
        ba, bb = _behaviour(kind, terms[0], x), _behaviour(kind, terms[1], y)
        if ba != bb:
            i = next(i for i in range(len(ba)) if ba[i] != bb[i])
            return Fail(f"equal-but-different:{sig0}", f"{_show(kind, terms[0])} == {_show(kind, terms[1])} but they behave differently "
                        f"on probe #{i}", ba[i], bb[i])
    return None


def _show(kind, t):
    return {"cond": show_cond, "part": show_part, "path": show_path, "rule": show_rule,
            "schema": lambda s: "Schema([" + ", ".join(show_rule(x) for x in s["rules"]) + "])"}[kind](t)


def _behaviour(kind, t, obj):
    V = ns()
    if kind == "cond":
        return _filter_probe(obj, O.cond_kinds(t))
    if kind == "part":
        return _path_probe(V.d.DataPath(obj))
    if kind == "path":
        return _path_probe(obj)
    if kind == "rule":
        return [_observe(obj, copy.deepcopy(d)) for d in PROBE_DOCS]
    return [_observe(obj, copy.deepcopy(d)) for d in PROBE_DOCS]


def _atom_variants(r, kind, t):
    """Terms differing from t in one atom, with a tag naming the atom."""
    out = []
    if kind == "cond":
        ls = O.leaves(t)
        if t["$c"] == "leaf":
            if t.get("a"):
                a2 = copy.deepcopy(t)
                a2["a"][0] = _other_value(r, t["a"][0])
                out.append((a2, "argument"))
            m2 = r.choice([m for m in O.CLS_CALLABLES[t["cls"]] if O.SIG[m] == O.SIG[O.canon(t["m"])] and m != O.canon(t["m"])] or [t["m"]])
            out.append((dict(t, m=m2), "callable"))
            c2 = {"Value": "Key", "Key": "Value", "Index": "Value", "ValueLength": "KeyLength", "KeyLength": "ValueLength",
                  "ValueDataType": "KeyDataType", "KeyDataType": "ValueDataType"}[t["cls"]]
            if t["m"] in O.CLS_CALLABLES[c2]:
                out.append((dict(t, cls=c2), "datum-kind"))
        else:
            op2 = r.choice([o for o in ("and", "or", "xor") if o != t["$c"]])
            out.append((dict(t, **{"$c": op2}), "operator"))
            for v, tag in _atom_variants(r, "cond", t["l"]):
                out.append((dict(t, l=v), tag))
    elif kind == "part":
        if "$prim" in t:
            out.append(({"$prim": _other_prim(r, t["$prim"])}, "prim"))
        else:
            for f in ("key", "index", "value"):
                if f in t:
                    x = t[f]
                    if isinstance(x, dict) and "$c" in x:
                        for v, tag in _atom_variants(r, "cond", x):
                            out.append((dict(t, **{f: v}), f"{f}-{tag}"))
                    else:
                        out.append((dict(t, **{f: _other_prim(r, x)}), f"{f}-prim"))
            out.append((dict(t, label="other" if t.get("label") != "other" else "lbl"), "label"))
            k2 = {"map": "mol", "list": "mol", "mol": "map"}[t["$p"]]
            t2 = {k: v for k, v in t.items() if not (k2 == "map" and k == "index")}
            t2["$p"] = k2
            out.append((t2, "part-kind"))
    elif kind == "path":
        for i, part in enumerate(t["parts"]):
            for v, tag in _atom_variants(r, "part", part):
                p2 = copy.deepcopy(t)
                p2["parts"][i] = v
                out.append((p2, tag))
        if t["parts"]:
            out.append(({"parts": t["parts"][:-1], "mods": t.get("mods", [])}, "length"))
        if not t.get("mods"):
            out.append((dict(t, mods=["length"]), "modifier"))
    elif kind == "rule":
        for v, tag in _atom_variants(r, "path", t["path"]):
            out.append((dict(t, path=v), "path-" + tag))
        for v, tag in _atom_variants(r, "cond", t["cond"]):
            out.append((dict(t, cond=v), "cond-" + tag))
        out.append((dict(t, cast=({"str": "int"} if t.get("cast") != {"str": "int"} else {"str": "bool"})), "cast"))
    return out


def _other_prim(r, p):
    if isinstance(p, bool):
        return not p
    if isinstance(p, int):
        return p + 1
    if isinstance(p, float):
        return p + 1.0
    return str(p) + "x"


def _other_value(r, v):
    if isinstance(v, (bool, int, float, str)):
        return _other_prim(r, v)
    if isinstance(v, list):
        return v + [0]
    if isinstance(v, dict) and "$type" in v:
        return {"$type": "str" if v["$type"] != "str" else "int"}
    return 12345


def _commute(t):
    if t["$c"] in ("and", "or", "xor"):
        return dict(t, l=t["r"], r=t["l"])
    return None


@cases("C14", "equality")
def c14_gen(r, tier):
    n = 120 if tier == "quick" else 1500
    for i in range(n):
        d = G.gen_doc(r, 2)
        kind = r.choice(["cond", "part", "path", "rule"])
        if kind == "cond":
            t = G.gen_cond(r, r.randint(0, 2), r.choice([("value",), ("value", "key")]), well_typed=True)
        elif kind == "part":
            t = G.gen_part(r, well_typed=True, prim_p=0.0)
        elif kind == "path":
            t = G.gen_path(r, 3, well_typed=True, mods=r.random() < 0.3)
        else:
            t = G.gen_rule(r, d, well_typed=True, cast_p=0.3)
        yield {"kind": kind, "relation": "rebuilt", "terms": [t, copy.deepcopy(t)]}
        if kind == "cond":
            c = _commute(t)
            if c:
                yield {"kind": kind, "relation": "commuted", "terms": [t, c]}
        vs = _atom_variants(r, kind, t)
        for v, tag in vs[:8]:
            yield {"kind": kind, "relation": "atom", "what": tag, "terms": [t, v]}
        if len(vs) >= 2:
            yield {"kind": kind, "relation": "triple", "terms": [vs[0][0], t, vs[1][0]]}
    a, b, c = G.leaf("Value", "greater_than", 0), G.leaf("Value", "less_than", 5), G.leaf("Value", "equal_to", 2)
    for op in ("and", "or", "xor"):
        N = lambda l, r_: {"$c": op, "l": l, "r": r_}
        for x, y in ((N(a, a), N(a, b)), (N(a, b), N(a, a)), (N(a, a), N(b, b)), (N(N(a, b), N(b, a)), N(N(a, b), c)),
                     (N(a, a), N(a, a)), (N(N(a, a), b), N(N(a, b), b))):
            yield {"kind": "cond", "relation": "atom", "what": "duplicate-operands", "terms": [x, y]}
            yield {"kind": "cond", "relation": "atom", "what": "duplicate-operands", "terms": [y, x]}
            yield {"kind": "path", "relation": "atom", "what": "duplicate-operands",
                   "terms": [{"parts": [{"$p": "list", "value": x}]}, {"parts": [{"$p": "list", "value": y}]}]}
    for m in ("equal_to", "not_equal_to", "in_"):
        lst, tup = [1, 2], {"$tuple": [1, 2]}
        args = ([lst], [tup]) if m != "in_" else ([[lst, 3]], [[tup, 3]])
        x, y = G.leaf("Value", m, *args[0]), G.leaf("Value", m, *args[1])
        yield {"kind": "cond", "relation": "atom", "what": "list-vs-tuple-argument", "terms": [x, y]}
        yield {"kind": "rule", "relation": "atom", "what": "list-vs-tuple-argument",
               "terms": [{"path": {"parts": [{"$p": "mol"}]}, "cond": x}, {"path": {"parts": [{"$p": "mol"}]}, "cond": y}]}
    # int path parts (every integer key/index is a map-or-list part)
    for a, b in ((0, 1), (1, 2), ("a", "b"), (1, True), (1, 1.0)):
        yield {"kind": "path", "relation": "atom", "what": "prim", "terms": [{"parts": [{"$prim": a}]}, {"parts": [{"$prim": b}]}]}
        yield {"kind": "part", "relation": "atom", "what": "key-prim", "terms": [{"$p": "mol", "key": a}, {"$p": "mol", "key": b}]}
    for _ in range(n // 4):
        d = G.gen_doc(r, 2)
        s = G.gen_schema(r, d, n=r.randint(1, 3), well_typed=True)
        yield {"kind": "schema", "relation": "rebuilt", "terms": [s, copy.deepcopy(s)]}
        s2 = copy.deepcopy(s)
        vs = _atom_variants(r, "rule", s2["rules"][0])
        if vs:
            s2["rules"][0] = vs[0][0]
            yield {"kind": "schema", "relation": "atom", "what": "rule-" + vs[0][1], "terms": [s, s2]}


# =========================================================================== C16
@clause("C16", "spec-unchanged")
def c16_unchanged(w):
    """Parsing leaves the caller's spec type-exactly unchanged; a second parse of the same structure
    yields an object equal to the first."""
    V = ns()
    what, spec = w["what"], dec(w["spec"]) if w.get("encoded") else copy.deepcopy(w["spec"])
    parse = {"condition": V.c.ConditionLike.from_spec, "condition-json": V.c.ConditionLike.from_json_like,
             "part": V.d.ContainerValue.from_spec, "path": V.d.DataPath.from_spec,
             "parts": lambda s: V.d.DataPath.from_part_specs(*s), "rule": V.r.Rule.from_spec,
             "rule-json": V.r.Rule.from_json_like, "rules": V.s.Schema.init_rules,
             "schema-json": V.s.Schema.from_json_like}[what]
    for src, dst in w.get("alias", []):
        # one object used at two places of the spec (what a YAML anchor / alias, or a caller re-using a list, gives)
        def at(o, path):
            for k in path:
                o = o[k]
            return o
        at(spec, dst[:-1])[dst[-1]] = at(spec, src)
    before = copy.deepcopy(spec)
    try:
        o1 = parse(spec)
    except Exception as e:
        return Fail(f"parse-raises:{what}:{exc_sig(e)}", f"{what} parse of {before!r} raised {e!r}")
    if not teq(spec, before):
        return Fail(f"mutated:{what}:{w.get('tag', '')}", f"{what} parse changed the caller's spec", spec, before)
    try:
        o2 = parse(spec)
    except Exception as e:
        return Fail(f"second-parse-raises:{what}:{w.get('tag', '')}", f"second {what} parse raised {e!r}; spec now {spec!r}")
    if not teq(spec, before):
        return Fail(f"mutated-2nd:{what}:{w.get('tag', '')}", f"second {what} parse changed the caller's spec", spec, before)
    same = (o1 == o2) if not isinstance(o1, list) else (len(o1) == len(o2) and all(a == b for a, b in zip(o1, o2)))
    if not same:
        return Fail(f"second-parse-differs:{what}:{w.get('tag', '')}", f"second {what} parse of {before!r} differs", repr(o2), repr(o1))
    return None


@cases("C16", "spec-unchanged")
def c16_gen(r, tier):
    n = 100 if tier == "quick" else 1200
    yield {"what": "condition", "tag": "escaped-path", "spec": {"value.equal_to": {"\\path": ["a"]}}}
    yield {"what": "condition", "tag": "path-arg", "spec": {"value.equal_to": {"path": ["a"]}}}
    yield {"what": "condition", "tag": "path-in-list", "spec": {"value.in": [{"path": ["a"]}, 7]}}
    yield {"what": "condition", "tag": "path-in-kwargs", "spec": {"value.in_range": {"lower": {"path": ["a"]}, "upper": 9}}}
    yield {"what": "path", "tag": "escaped", "spec": {"\\path": [1]}}
    # one list / mapping object at two places of a spec, with strings the parser normalises
    lines = ["  The number of cores to use.\n", "See `resources`.\n"]
    rs = {"path": ["resources", {"type": "map_value", "key.equal_to": "num_cores"}], "condition": {"value.dtype.equal_to": "int"},
          "cast": {"str": "int"}, "doc": {"description": list(lines), "examples": list(lines)}}
    for what in ("rule", "rule-json"):
        yield {"what": what, "tag": "shared-doc-list", "spec": copy.deepcopy(rs), "alias": [[["doc", "description"], ["doc", "examples"]]]}
    for what in ("rules", "schema-json"):
        yield {"what": what, "tag": "shared-doc-list", "spec": [copy.deepcopy(rs)], "alias": [[[0, "doc", "description"], [0, "doc", "examples"]]]}
        yield {"what": what, "tag": "shared-rule-parts", "spec": [copy.deepcopy(rs), copy.deepcopy(rs)], "alias": [[[0, "path"], [1, "path"]], [[0, "doc"], [1, "doc"]]]}
    pm = {"type": "map_value", "key": {"key.in": ["a", " b"]}}
    yield {"what": "parts", "tag": "shared-part-spec", "spec": ["x", copy.deepcopy(pm), copy.deepcopy(pm)], "alias": [[[1], [2]]]}
    yield {"what": "condition", "tag": "shared-operand", "spec": {"and": [{"value.in": [1, 2]}, {"value.in": [1, 2]}]}, "alias": [[["and", 0], ["and", 1]]]}
    for _ in range(n):
        d = G.gen_doc(r, 2)
        c = _json_args_only(G.gen_cond(r, r.randint(0, 2), ("value",), well_typed=True))
        if c is not None:
            yield {"what": r.choice(["condition", "condition-json"]), "tag": "plain", "spec": cond_spec(c, r)}
        part = _json_part(G.gen_part(r, well_typed=True, prim_p=0.0))
        if part is not None:
            yield {"what": "part", "tag": "plain", "spec": r.choice(part_specs(part, r))}
        p = G.gen_path(r, 3, well_typed=True, prim_p=0.5, mods=True)
        if all("$prim" in i or _json_part(i) is not None for i in p["parts"]):
            p["parts"] = [i if "$prim" in i else _json_part(i) for i in p["parts"]]
            ps = path_part_specs(p, r)
            yield {"what": "parts", "tag": "plain", "spec": ps}
            yield {"what": "path", "tag": "plain", "spec": {".".join(["path"] + p.get("mods", [])): ps}}
        rt = G.gen_rule(r, d, well_typed=True, cast_p=0.5)
        rt["cond"] = _json_args_only(rt["cond"])
        if rt["cond"] is None or not all("$prim" in i or _json_part(i) is not None for i in rt["path"]["parts"]):
            continue
        rt["path"]["parts"] = [i if "$prim" in i else _json_part(i) for i in rt["path"]["parts"]]
        shape = r.choice(DOC_SHAPES)[0] if r.random() < 0.6 else None
        rs = rule_spec(rt, r, shape)
        tag = ("cast" if rt.get("cast") else "nocast") + ("+doc" if shape is not None else "")
        yield {"what": r.choice(["rule", "rule-json"]), "tag": tag, "spec": rs}
        yield {"what": r.choice(["rules", "schema-json"]), "tag": tag, "spec": [copy.deepcopy(rs)]}


# =========================================================================== C17
@clause("C17", "path-arguments")
def c17_pathargs(w):
    """A rule whose condition has data-path arguments judges a document exactly as the same rule with each
    such argument replaced by what the path selects there (None if absent, modifiers applied)."""
    V = ns()
    rt, doc = w["rule"], dec(w["doc"])
    try:
        want = O.RuleTestSpec(rt, doc)
    except (O.Undefined, ValueError):
        return None
    via = w.get("via", "api")
    try:
        if via == "api":
            rule = build_rule(rt, V)
        else:
            rule = V.r.Rule.from_spec(copy.deepcopy(w["spec"]))
        t = rule.test(copy.deepcopy(doc))
        got = dict(valid=t.is_valid, tested=t.tested, failures=[(f.index, f.path, f.value) for f in t.failures])
    except BuildError:
        raise
    except Exception as e:
        return Fail(f"raises:{via}:{exc_sig(e)}", f"{show_rule(rt)} ({via}) on {doc!r} raised {e!r}")
    want = {k: want[k] for k in ("valid", "tested", "failures")}
    if not teq(got, want):
        return Fail(f"verdict:{via}:{w.get('tag', '')}", f"{show_rule(rt)} ({via}) on {doc!r}", got, want)
    return None


def _path_arg(r, d):
    """A path term pointing (usually) into document d, possibly with modifiers."""
    p = G.path_into(r, d, maxlen=2, fan_p=0.25)
    conc = O.is_concrete(p)
    ms = []
    if not conc:
        ms.append(r.choice(["first", "last", "all", "all"]))
    if r.random() < 0.25:
        ms.append(r.choice(["length", "dtype"]))
    r.shuffle(ms)
    p["mods"] = ms
    return {"$path": p}


@cases("C17", "path-arguments")
def c17_gen(r, tier):
    n = 300 if tier == "quick" else 4000
    # directed: the selected node *equals* the argument once the nested path is resolved (random documents almost never do,
    # and an unresolved path object then goes unnoticed because both sides are simply unequal)
    pa = {"$path": {"parts": [{"$prim": "a"}]}}
    for doc, at, arg, tag in (
            ({"a": 1, "b": {"x": 1}}, "b", {"x": pa}, "nested-mapping"),
            ({"a": 1, "b": {"x": 1, "y": [1, 2]}}, "b", {"x": pa, "y": [pa, 2]}, "nested-mapping-list"),
            ({"a": 1, "b": [1, 7]}, "b", [pa, 7], "nested-list"),
            ({"a": 1, "b": [[1], 7]}, "b", [[pa], 7], "nested-list-list"),
            ({"a": 1, "b": {"k": {"x": 1}}}, "b", {"k": {"x": pa}}, "nested-mapping-mapping"),
            ({"a": 1, "b": {"x": 2}}, "b", {"x": pa}, "nested-mapping")):
        rule = {"path": {"parts": [{"$prim": at}]}, "cond": G.leaf("Value", "equal_to", arg)}
        yield {"rule": rule, "doc": enc(doc), "tag": tag}
        yield {"rule": {"path": {"parts": [{"$prim": at}]}, "cond": G.leaf("Value", "not_equal_to", arg)}, "doc": enc(doc), "tag": tag}
    # argument paths whose parts do not address anything the way plain indexing would: a negative index selects nothing
    # (the argument is None), an integer part is an index in a list and a key in a mapping, a missing key gives None
    for doc, at, parts, tag in (
            ({"xs": [1, 2, None], "b": None}, "b", ["xs", -1], "negative-index-argument"),
            ({"xs": [1, 2, 3], "b": 3}, "b", ["xs", -1], "negative-index-argument"),
            ({"xs": [[5, 6]], "b": 6}, "b", ["xs", 0, -1], "negative-index-argument"),
            ({"xs": {-1: "m", 0: "z"}, "b": "m"}, "b", ["xs", -1], "negative-key-argument"),
            ({"xs": [1, 2, 3], "b": None}, "b", ["xs", 7], "absent-argument"),
            ({"xs": {"k": 1}, "b": None}, "b", ["xs", "q"], "absent-argument"),
            ({"xs": "abc", "b": "c"}, "b", ["xs", -1], "string-is-a-leaf"),
            ({"xs": "abc", "b": None}, "b", ["xs", 0], "string-is-a-leaf")):
        arg = {"$path": {"parts": [{"$prim": q} for q in parts]}}
        for m in ("equal_to", "not_equal_to"):
            yield {"rule": {"path": {"parts": [{"$prim": at}]}, "cond": G.leaf("Value", m, arg)}, "doc": enc(doc), "tag": tag}
        yield {"rule": {"path": {"parts": [{"$prim": at}]}, "cond": G.leaf("Value", "in_", [arg, 99])}, "doc": enc(doc), "tag": tag}
    for _ in range(n):
        d = G.gen_doc(r, 3)
        x = r.random()
        pa = _path_arg(r, d)
        if x < 0.35:
            leaf, tag = G.leaf("Value", r.choice(["equal_to", "not_equal_to", "less_than", "greater_than", "in_"]), pa), "positional"
        elif x < 0.5:
            leaf, tag = G.leaf("Value", "in_range", pa, 5), "positional-2"
        elif x < 0.6:
            leaf, tag = G.leaf("Value", "equal_to_approx", 1, tolerance=pa), "keyword"
        elif x < 0.7:
            leaf, tag = G.leaf("Value", "items_contain", a=pa), "keyword-var"
        elif x < 0.8:
            leaf, tag = G.leaf("Value", "keys_contain_any_of", pa, "a"), "var-positional"
        elif x < 0.9:
            leaf, tag = G.leaf("Value", "in_", [pa, 7, "a"]), "nested-list"
        else:
            leaf, tag = G.leaf("Value", "equal_to", {"k": pa}), "nested-mapping"
        cond = leaf if r.random() < 0.6 else {"$c": r.choice(["and", "or"]), "l": G.gen_leaf(r, "Value", True), "r": leaf}
        rule = {"path": G.path_into(r, d, fan_p=0.4), "cond": cond}
        try:
            O.RuleTestSpec(rule, d)
        except (O.Undefined, ValueError):
            continue
        except Exception:
            continue
        yield {"rule": rule, "doc": enc(d), "tag": tag}
    # spec route incl. escaped spelling
    for d in ({"a": 3, "b": 3, "c": {"path": ["a"]}}, {"a": [1, 2], "b": 2, "c": {"\\path": 1}}):
        for spec, cond, tag in (
                ({"path": ["b"], "condition": {"value.equal_to": {"path": ["a"]}}},
                 G.leaf("Value", "equal_to", {"$path": {"parts": [{"$prim": "a"}]}}), "spec-path"),
                ({"path": ["c"], "condition": {"value.equal_to": {"\\path": ["a"]}}},
                 G.leaf("Value", "equal_to", {"path": ["a"]}), "spec-escaped"),
                ({"path": ["b"], "condition": {"value.equal_to": {"path.length": ["a"]}}},
                 G.leaf("Value", "equal_to", {"$path": {"parts": [{"$prim": "a"}], "mods": ["length"]}}), "spec-path-mod")):
            rule = {"path": {"parts": [{"$prim": spec["path"][0]}]}, "cond": cond}
            try:
                O.RuleTestSpec(rule, d)
            except Exception:
                continue
            yield {"rule": rule, "doc": enc(d), "via": "spec", "spec": spec, "tag": tag}
    # escaped literal mappings (one and several items) as items of a list argument and as values of a mapping argument
    lit1, lit2 = {"path": ["A", "B"]}, {"path": ["A", "B"], "key": "val"}
    esc1, esc2 = {"\\path": ["A", "B"]}, {"\\path": ["A", "B"], "key": "val"}
    for d in ({"x": lit1, "A": {"B": 7}}, {"x": lit2, "A": {"B": 7}}, {"x": 7, "A": {"B": 7}}, {"x": esc2, "A": {"B": 1}}):
        for spec_arg, lit_arg, m, tag in (
                ([esc1, 5], [lit1, 5], "in_", "spec-escaped-in-list"),
                ([esc2, 5], [lit2, 5], "in_", "spec-escaped-multi-in-list"),
                ([{"path": ["A", "B"]}, esc2], [{"$path": {"parts": [{"$prim": "A"}, {"$prim": "B"}]}}, lit2], "in_", "spec-path-and-escaped-in-list")):
            rule = {"path": {"parts": [{"$prim": "x"}]}, "cond": G.leaf("Value", m, lit_arg)}
            spec = {"path": ["x"], "condition": {"value.in": spec_arg}}
            try:
                O.RuleTestSpec(rule, d)
            except Exception:
                continue
            yield {"rule": rule, "doc": enc(d), "via": "spec", "spec": spec, "tag": tag}
