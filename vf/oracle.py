"""The oracle: what the property statements say, as executable definitions over *terms*
(vf/terms.py) and plain Python documents.  Written from the property texts and the documented
names of the DSL, never from the bodies of /repo/valida; it does not import valida.

DESIGN.md Appendix C is the normative text; spec/ compiles the same definitions for the prover.
"""
import copy

from .terms import dec, TYPE_NAMES


class Undefined(Exception):
    """Raised by the oracle when the property does not say what must happen (outside its quantifier)."""


def _count(pred, xs):
    return sum(1 for x in xs if pred(x))


# "the comparison the name documents", over Python's own operators.  t is the (pre-processed) datum.
SPEC = {
    "equal_to": lambda t, value: t == value,
    "not_equal_to": lambda t, value: t != value,
    "less_than": lambda t, value: t < value,
    "greater_than": lambda t, value: t > value,
    "less_than_or_equal_to": lambda t, value: t <= value,
    "greater_than_or_equal_to": lambda t, value: t >= value,
    "in_": lambda t, value: t in value,
    "not_in": lambda t, value: t not in value,
    "in_range": lambda t, lower, upper: t in range(lower, upper),
    "not_in_range": lambda t, lower, upper: t not in range(lower, upper),
    "factor_of": lambda t, value: value % t == 0,
    "has_factor": lambda t, value: t % value == 0,
    "equal_to_approx": lambda t, value, tolerance=1e-8: abs(t - value) < tolerance,
    "truthy": lambda t: bool(t),
    "falsy": lambda t: not t,
    "null": lambda t: True,
    "is_instance": lambda t, *classes: isinstance(t, classes),
    "keys_contain": lambda d, key: key in d.keys(),
    "keys_contain_any_of": lambda d, *keys: any(k in d.keys() for k in keys),
    "keys_contain_all_of": lambda d, *keys: all(k in d.keys() for k in keys),
    "keys_contain_N_of": lambda d, N, keys: _count(lambda k: k in d.keys(), keys) == N,
    "keys_contain_at_least_N_of": lambda d, N, keys: _count(lambda k: k in d.keys(), keys) >= N,
    "keys_contain_at_most_N_of": lambda d, N, keys: _count(lambda k: k in d.keys(), keys) <= N,
    "keys_contain_one_of": lambda d, *keys: _count(lambda k: k in d.keys(), keys) == 1,
    "keys_contain_at_least_one_of": lambda d, keys: _count(lambda k: k in d.keys(), keys) >= 1,
    "keys_contain_at_most_one_of": lambda d, keys: _count(lambda k: k in d.keys(), keys) <= 1,
    "keys_equal_to": lambda d, *keys: set(d.keys()) == set(keys),
    "keys_is_instance": lambda d, *classes: all(isinstance(k, classes) for k in d.keys()),
    "items_contain": lambda d, **items: all((k in d.keys()) and d[k] == v for k, v in items.items()),
    "allowed_keys": lambda d, *keys: set(d.keys()) <= set(keys),
    "required_keys": lambda d, *keys: set(keys) <= set(d.keys()),
    "forbidden_keys": lambda d, *keys: not (set(keys) & set(d.keys())),
}
ALIASES = {"eq": "equal_to", "lt": "less_than", "gt": "greater_than", "lte": "less_than_or_equal_to",
           "gte": "greater_than_or_equal_to"}
GENERAL = ["equal_to", "not_equal_to", "less_than", "greater_than", "less_than_or_equal_to",
           "greater_than_or_equal_to", "in_", "not_in", "in_range", "not_in_range", "equal_to_approx",
           "factor_of", "has_factor", "truthy", "falsy", "null", "is_instance"]
MAPC = ["keys_contain", "keys_contain_any_of", "keys_contain_all_of", "keys_contain_N_of",
        "keys_contain_at_least_N_of", "keys_contain_at_most_N_of", "keys_contain_one_of",
        "keys_contain_at_least_one_of", "keys_contain_at_most_one_of", "keys_equal_to", "keys_is_instance",
        "items_contain", "allowed_keys", "required_keys", "forbidden_keys"]
CLS_CALLABLES = {"Value": GENERAL + MAPC, "Key": GENERAL + MAPC, "ValueLength": GENERAL, "ValueDataType": GENERAL,
                 "KeyLength": GENERAL, "KeyDataType": GENERAL, "Index": GENERAL}
CLS_KIND = {"Value": "value", "ValueLength": "value", "ValueDataType": "value", "Key": "key", "KeyLength": "key",
            "KeyDataType": "key", "Index": "index"}
CLS_PRE = {"Value": None, "Key": None, "Index": None, "ValueLength": len, "KeyLength": len, "ValueDataType": type,
           "KeyDataType": type}
CLS_LABEL = {"Value": "value", "ValueLength": "value.length", "ValueDataType": "value.dtype", "Key": "key",
             "KeyLength": "key.length", "KeyDataType": "key.dtype", "Index": "index"}
# documented signatures of the DSL methods (after the datum)
SIG = {
    **{m: ("pk", ["value"]) for m in ["equal_to", "not_equal_to", "less_than", "greater_than", "less_than_or_equal_to",
                                      "greater_than_or_equal_to", "in_", "not_in", "factor_of", "has_factor"]},
    "in_range": ("pk", ["lower", "upper"]), "not_in_range": ("pk", ["lower", "upper"]),
    "equal_to_approx": ("pk", ["value", "tolerance"]),
    "truthy": ("none", []), "falsy": ("none", []), "null": ("none", []),
    "is_instance": ("var", "classes"), "keys_contain": ("pk", ["key"]),
    "keys_contain_any_of": ("var", "keys"), "keys_contain_all_of": ("var", "keys"),
    "keys_contain_N_of": ("pk", ["N", "keys"]), "keys_contain_at_least_N_of": ("pk", ["N", "keys"]),
    "keys_contain_at_most_N_of": ("pk", ["N", "keys"]), "keys_contain_one_of": ("var", "keys"),
    "keys_contain_at_least_one_of": ("pk", ["keys"]), "keys_contain_at_most_one_of": ("pk", ["keys"]),
    "keys_equal_to": ("var", "keys"), "keys_is_instance": ("var", "classes"), "items_contain": ("kw", "items"),
    "allowed_keys": ("var", "keys"), "required_keys": ("var", "keys"), "forbidden_keys": ("var", "keys"),
}


def canon(m):
    return ALIASES.get(m, m)


# --------------------------------------------------------------------------- Meaning / Sem
def resolve_arg(t, src, nested=True):
    """value term -> Python value, data-path arguments replaced by what they select in `src`."""
    if isinstance(t, dict) and "$path" in t:
        if src is None:
            raise Undefined("path argument without source document")
        return GetDataSpec(t["$path"], src, False)
    if nested and isinstance(t, list):
        return [resolve_arg(i, src) for i in t]
    if nested and isinstance(t, dict) and "$tuple" in t:
        return tuple(resolve_arg(i, src) for i in t["$tuple"])
    if nested and isinstance(t, dict) and "$dict" in t:
        return {dec(k): resolve_arg(v, src) for k, v in t["$dict"]}
    if nested and isinstance(t, dict) and "$type" not in t:
        return {k: resolve_arg(v, src) for k, v in t.items()}
    return dec(t)


def Meaning(leaf, x, src=None):
    """Whether item datum x (value, key or index) satisfies the leaf condition term."""
    p = CLS_PRE[leaf["cls"]]
    if p is not None:
        try:
            x = p(x)
        except TypeError:
            return False                                   # "length of a number" -> not satisfied
    f = SPEC[canon(leaf["m"])]
    args = [resolve_arg(a, src) for a in leaf.get("a", [])]
    kwargs = {k: resolve_arg(a, src) for k, a in leaf.get("k", {}).items()}
    try:
        return bool(f(x, *args, **kwargs))
    except Undefined:
        raise
    except Exception:
        return False                                       # comparison not defined for this item


_OPS = {"and": lambda a, b: a and b, "or": lambda a, b: a or b, "xor": lambda a, b: a != b}


def Sem(c, keys, values, src=None):
    """One boolean per item, in item order."""
    k = c["$c"]
    if k == "null":
        return [True for _ in values]
    if k == "leaf":
        data = values if CLS_KIND[c["cls"]] == "value" else keys
        return [Meaning(c, x, src) for x in data]
    # "combining with the null condition on either side gives the other operand's behaviour"
    if is_null_tree(c["l"]):
        return Sem(c["r"], keys, values, src)
    if is_null_tree(c["r"]):
        return Sem(c["l"], keys, values, src)
    l, r = Sem(c["l"], keys, values, src), Sem(c["r"], keys, values, src)
    return [_OPS[k](a, b) for a, b in zip(l, r)]


def items_of(d):
    if isinstance(d, dict):
        return list(d.keys()), list(d.values())
    return list(range(len(d))), list(d)


def leaves(c):
    if c["$c"] in ("and", "or", "xor"):
        return leaves(c["l"]) + leaves(c["r"])
    return [c] if c["$c"] == "leaf" else []


def cond_kinds(c):
    return {CLS_KIND[l["cls"]] for l in leaves(c)}


def is_null_tree(c):
    """A term that the null-identity law reduces to the null condition."""
    if c["$c"] == "null":
        return True
    if c["$c"] == "leaf":
        return False
    return is_null_tree(c["l"]) and is_null_tree(c["r"])


# --------------------------------------------------------------------------- Walk
def _as_cond(x, cls):
    if isinstance(x, dict) and "$c" in x:
        return x
    return {"$c": "leaf", "cls": cls, "m": "equal_to", "a": [x]}


def part_conditions(part, n):
    """The condition terms a part imposes on the children of node n (all and-combined)."""
    if "$prim" in part:
        p = part["$prim"]
        if isinstance(p, (str, float)) and not isinstance(p, bool):
            return [_as_cond(p, "Key")] if isinstance(n, dict) else None
        if isinstance(p, (bool, int)):
            return [_as_cond(p, "Key" if isinstance(n, dict) else "Index")]
        raise Undefined("primitive part of unsupported type")
    k = part["$p"]
    out = []
    if k == "map":
        if not isinstance(n, dict):
            return None
        if "key" in part:
            out.append(_as_cond(part["key"], "Key"))
    elif k == "list":
        if not isinstance(n, list):
            return None
        if "index" in part:
            out.append(_as_cond(part["index"], "Index"))
    else:
        if isinstance(n, list):
            if "list_condition" in part:
                out.append(part["list_condition"])
            if "index" in part:
                out.append(_as_cond(part["index"], "Index"))
        else:
            if "map_condition" in part:
                out.append(part["map_condition"])
            if "key" in part:
                out.append(_as_cond(part["key"], "Key"))
    if "value" in part:
        out.append(_as_cond(part["value"], "Value"))
    if "condition" in part:
        out.append(part["condition"])
    return out


def step(part, n, src=None):
    """Children (key, value) of node n that the part matches, in document order."""
    if not isinstance(n, (list, dict)) or not n:
        return []                                          # scalar / empty container: part does not apply
    conds = part_conditions(part, n)
    if conds is None:
        return []                                          # wrong container kind
    kinds = set()
    for c in conds:
        kinds |= cond_kinds(c)
    if ("key" in kinds and isinstance(n, list)) or ("index" in kinds and isinstance(n, dict)):
        return []                                          # a key condition refuses a list, an index condition a mapping
    ks, vs = items_of(n)
    sel = [True] * len(ks)
    for c in conds:
        s = Sem(c, ks, vs, src)
        sel = [a and b for a, b in zip(sel, s)]
    return [(k, v) for k, v, s in zip(ks, vs, sel) if s]


def Walk(parts, doc):
    frontier = [(doc, ())]
    for p in parts:
        frontier = [(v, cp + (k,)) for (n, cp) in frontier for (k, v) in step(p, n)]
    return frontier                                        # [(node, concrete_path)], each once, in order


def is_concrete(path):
    return all("$prim" in p for p in path["parts"])


def IndexAt(doc, path):
    for k in path:
        doc = doc[k]
    return doc


DATUM_MODS = {"dtype": type, "length": len, "map_keys": lambda d: list(d.keys()),
              "map_values": lambda d: list(d.values())}
MULTI_MODS = ("first", "last", "single", "all")


def GetDataSpec(path, doc, return_paths=False):
    mods = path.get("mods", [])
    dm = [m for m in mods if m in DATUM_MODS]
    mm = [m for m in mods if m in MULTI_MODS]
    if len(dm) > 1 or len(mm) > 1 or len(dm) + len(mm) != len(mods):
        raise Undefined("modifier combination outside the property")
    f = DATUM_MODS[dm[0]] if dm else (lambda x: x)
    if not path["parts"]:
        try:
            return (f(doc), ()) if return_paths else f(doc)
        except (TypeError, AttributeError):
            raise Undefined("datum modifier not defined on the document")
    W = Walk(path["parts"], doc)
    conc = is_concrete(path)
    if not W:
        return None if conc else []
    try:
        out = [(f(v), cp) for v, cp in W] if return_paths else [f(v) for v, _ in W]
    except (TypeError, AttributeError):
        raise Undefined("datum modifier not defined on a selected node")
    if conc:
        return out[0]
    if mm:
        m = mm[0]
        if m == "first":
            return out[0]
        if m == "last":
            return out[-1]
        if m == "single":
            if len(out) > 1:
                raise ValueError("several matches for single()")
            return out[0]
    return out


# --------------------------------------------------------------------------- rules / schemas
CASTS = {("str", "bool"): lambda s: {"true": True, "false": False}[s.lower()],
         ("str", "int"): int}
_T = {"str": str, "bool": bool, "int": int}


_NOCAST = object()


def cast_value(cast, v):
    """First declared cast whose source type matches and which succeeds, else _NOCAST (node left as it is)."""
    for frm, to in (cast or {}).items():
        if isinstance(v, _T[frm]):
            try:
                return CASTS[(frm, to)](v)
            except Exception:
                pass
    return _NOCAST


def apply_casts(cur, W, cast):
    for v, cp in W:
        nv = cast_value(cast, v)
        if nv is not _NOCAST:
            cur = Update(cur, cp, nv)
    return cur


def Update(doc, path, v):
    """Functional update of doc along a concrete key path (dict by actual key, list by index)."""
    if not path:
        return v
    new = copy.copy(doc)
    new[path[0]] = Update(doc[path[0]], path[1:], v)
    return new


def RuleTestSpec(rule, doc, cast_doc=None):
    """(verdict, tested, failures [(index, concrete path, value)], cast document)."""
    cur = doc if cast_doc is None else cast_doc
    W = Walk(rule["path"]["parts"], doc)
    if rule.get("cast"):
        cur = apply_casts(cur, W, rule["cast"])
        W = Walk(rule["path"]["parts"], cur)
    elif cast_doc is not None:
        W = Walk(rule["path"]["parts"], cur)
    if not W:
        return dict(valid=True, tested=False, failures=[], cast_doc=cur)
    vs = [v for v, _ in W]
    V = Sem(rule["cond"], list(range(len(vs))), vs, src=cur)
    return dict(valid=all(V), tested=True,
                failures=[(j, W[j][1], W[j][0]) for j in range(len(W)) if not V[j]], cast_doc=cur)


def sorted_rules(rules):
    return sorted(rules, key=lambda r: len(r["path"]["parts"]))


def SchemaSpec(schema, doc):
    """Schema verdict: every rule applied (shortest path first, ties in the given order).  A rule that
    declares casts selects in the caller's document, writes the cast values into the schema's one shared
    private copy and is judged on that copy (C15); a cast-free rule is judged on the document (C05)."""
    rules = sorted_rules(schema["rules"])
    has_cast = any(r.get("cast") for r in rules)
    cur = copy.deepcopy(doc)
    tests = []
    for r in rules:
        if r.get("cast"):
            t = _cast_rule(r, doc, cur)
            cur = t["cast_doc"]
        else:
            t = RuleTestSpec(r, doc)
        tests.append(t)
    return dict(valid=all(t["valid"] for t in tests), num_failures=sum(len(t["failures"]) for t in tests),
                num_tested=sum(1 for t in tests if t["tested"]), tests=tests, rules=rules,
                cast_doc=cur)


def _cast_rule(rule, doc, cur):
    W = Walk(rule["path"]["parts"], doc)
    cur = apply_casts(cur, W, rule["cast"])
    W2 = Walk(rule["path"]["parts"], cur)
    if not W2:
        return dict(valid=True, tested=False, failures=[], cast_doc=cur)
    vs = [v for v, _ in W2]
    V = Sem(rule["cond"], list(range(len(vs))), vs, src=cur)
    return dict(valid=all(V), tested=True,
                failures=[(j, W2[j][1], W2[j][0]) for j in range(len(W2)) if not V[j]], cast_doc=cur)


def type_exact_equal(a, b):
    if type(a) is not type(b):
        return False
    if isinstance(a, dict):
        return list(a.keys()) == list(b.keys()) and all(type(x) is type(y) for x, y in zip(a, b)) and all(
            type_exact_equal(a[k], b[k]) for k in a)
    if isinstance(a, (list, tuple)):
        return len(a) == len(b) and all(type_exact_equal(x, y) for x, y in zip(a, b))
    return a == b
