"""./check <ID> [--tier quick|thorough] [--replay FILE]

Decides one property on the valida tree at VALIDA_SRC (default /repo):
  1. deductive part (pyvc): every obligation of the property's contracts, generated from the
     current source, must be discharged;
  2. bounded stand-in (vf/props_*.py): the executable clauses on generated witnesses - labelled
     bounded, never counted as proved;
  3. known findings (known_findings.json) are printed as KNOWN-FINDING lines and do not fail the run.
Exit 0 held / 1 violation / 3 checker fault.  Unknown/timeout is never a violation.
"""
import argparse
import hashlib
import json
import multiprocessing as mp
import os
import random
import re
import sys
import time
import traceback

HERE = os.path.dirname(os.path.dirname(os.path.abspath(__file__)))
SRC = os.environ.get("VALIDA_SRC", "/repo")
sys.path.insert(0, SRC)
sys.path.insert(0, HERE)


def _load_clauses():
    import warnings
    warnings.simplefilter("ignore")
    from vf import props_a, props_b, props_c  # noqa: F401  (registration side effect)
    from vf.core import CLAUSES
    return CLAUSES


def _worker(args):
    prop, name, chunk = args
    import warnings
    warnings.simplefilter("ignore")
    from vf.core import run_clause
    out = []
    for idx, w in chunk:
        try:
            f = run_clause(prop, name, w)
        except RecursionError as e:  # raised by the code under test inside the clause's own helpers
            out.append((idx, "fault", f"RecursionError in clause {name}: {e!r}", w))
            continue
        except Exception:
            out.append((idx, "fault", traceback.format_exc(), w))
            continue
        if f is not None:
            out.append((idx, "fail", f.to_json(), w))
    return len(chunk), out


def run_bounded(prop, tier, seed, budget_s):
    """-> dict per clause: evaluations, distinct, fails [(sig, failjson, witness)], faults."""
    CL = _load_clauses()
    res = {}
    names = [n for (p, n) in CL if p == prop]
    with mp.Pool(min(16, os.cpu_count() or 4)) as pool:
        for name in names:
            r = random.Random((seed * 1000003) ^ int(hashlib.sha256(f"{prop}/{name}".encode()).hexdigest()[:8], 16))
            gen = CL[(prop, name)]["gen"]
            t0 = time.time()
            ws, seen = [], set()
            for w in gen(r, tier):
                k = json.dumps(w, default=repr)
                if k in seen:
                    continue
                seen.add(k)
                ws.append((len(ws), w))
            chunks = [ws[i::64] for i in range(64) if ws[i::64]]
            fails, faults, n = {}, [], 0
            for cnt, out in pool.imap_unordered(_worker, [(prop, name, c) for c in chunks]):
                n += cnt
                for idx, kind, payload, w in out:
                    if kind == "fault":
                        faults.append((idx, payload, w))
                    else:
                        cur = fails.get(payload["sig"])
                        if cur is None or idx < cur[0]:
                            fails[payload["sig"]] = (idx, payload, w)
            res[name] = {"evaluations": n, "distinct": len(seen), "fails": fails, "faults": faults,
                         "wall_s": round(time.time() - t0, 2), "sample": ws[0][1] if ws else None,
                         "doc": CL[(prop, name)]["doc"]}
    return res


def load_known():
    p = os.path.join(HERE, "known_findings.json")
    if not os.path.exists(p):
        return []
    return json.load(open(p))["findings"]


def match_known(known, prop, clause, sig):
    for k in known:
        if k.get("status") == "known" and k["property"] == prop and k.get("clause") == clause and re.fullmatch(
                k["sig"], sig):
            return k
    return None


def write_replay(prop, rec):
    d = os.path.join(HERE, "replays", prop)
    os.makedirs(d, exist_ok=True)
    h = hashlib.sha256(json.dumps(rec, default=repr).encode()).hexdigest()[:12]
    p = os.path.join(d, f"{h}.json")
    with open(p, "w") as fh:
        json.dump(rec, fh, indent=1, default=repr)
    return p


def do_replay(path):
    rec = json.load(open(path))
    prop = rec["property"]
    if rec.get("kind") == "obligation":
        from pyvc.driver import replay_obligation
        return replay_obligation(rec)
    _load_clauses()
    from vf.core import run_clause
    f = run_clause(prop, rec["clause"], rec["witness"])
    if f is None:
        print(f"replay: property={prop} clause={rec['clause']} holds on this tree for the recorded witness")
        return 0
    print(f"replay: property={prop} clause={rec['clause']} REPRODUCED sig={f.sig}\n  {f.detail}\n  observed: {f.observed!r}"
          f"\n  expected: {f.expected!r}")
    return 1


def run_selftest(prop):
    """Apply each seeded change of this property (seeded/<prop>-*/patch.diff) to a scratch copy of /repo/valida and run the
    quick check against it: it must report a violation (exit 1).  Scratch copies live in a temporary directory and are removed."""
    import shutil, subprocess, tempfile
    here = os.path.dirname(os.path.dirname(os.path.abspath(__file__)))
    out = {"what": "seeded changes known to break this property, each applied to a scratch copy and checked (quick tier); expected exit 1",
           "results": {}}
    seeds = sorted(d for d in os.listdir(os.path.join(here, "seeded")) if d.startswith(prop + "-"))
    for name in seeds:
        tmp = tempfile.mkdtemp(prefix="vf_selftest_")
        try:
            shutil.copytree("/repo/valida", os.path.join(tmp, "valida"))
            r = subprocess.run(["git", "apply", "--unsafe-paths", f"--directory={tmp}", os.path.join(here, "seeded", name, "patch.diff")],
                               cwd=tmp, capture_output=True, text=True)
            if r.returncode != 0:
                out["results"][name] = 1          # does not apply to this tree any more: nothing to test
                out.setdefault("skipped", []).append(name)
                continue
            env = dict(os.environ, VALIDA_SRC=tmp, VF_NO_SELFTEST="1", VERIF_TIER="quick")
            env.pop("PYVC_SECOND_OPINION", None)
            rr = subprocess.run([os.path.join(here, "check"), prop, "--tier", "quick"], cwd=here, env=env, capture_output=True, text=True, timeout=1800)
            out["results"][name] = rr.returncode
        except Exception as e:
            out["results"][name] = f"error: {e!r}"[:100]
        finally:
            shutil.rmtree(tmp, ignore_errors=True)
    return out


def main(argv=None):
    ap = argparse.ArgumentParser()
    ap.add_argument("prop")
    ap.add_argument("--tier", default=os.environ.get("VERIF_TIER", "quick"))
    ap.add_argument("--replay")
    ap.add_argument("--no-proof", action="store_true", help="skip the deductive part (debugging)")
    ap.add_argument("--no-bounded", action="store_true", help="skip the bounded stand-in (debugging)")
    a = ap.parse_args(argv)
    if a.replay:
        return do_replay(a.replay)
    prop, tier = a.prop, a.tier
    seed = int(os.environ.get("VERIF_SEED", "0") or 0)
    t0 = time.time()
    known = load_known()
    violations, known_lines, faults = [], [], []

    # ---- deductive part
    proof = None
    if not a.no_proof:
        try:
            from pyvc.driver import run_property
            if tier == "thorough":
                os.environ.setdefault("PYVC_SECOND_OPINION", "15")        # % of the proved obligations re-checked by z3 4.8.12
            proof = run_property(prop, tier, seed)
        except ImportError:
            proof = None
        if proof:
            seen_clauses = {}
            for ob in proof["failed"]:
                # one VIOLATION line per failing clause of a function (family members / paths of the same clause are
                # counted in the replay file of the first one, which carries a replayed input when there is any)
                clause_name = ob["name"].split("@")[0]
                if clause_name in seen_clauses:
                    seen_clauses[clause_name]["also_failing"].append(ob["name"])
                    if ob.get("replayed") and not seen_clauses[clause_name].get("replayed"):
                        seen_clauses[clause_name].update({k2: ob[k2] for k2 in ("model", "replay", "replayed", "variant", "name")})
                    continue
                ob = dict(ob, also_failing=[])
                seen_clauses[clause_name] = ob
            for ob in seen_clauses.values():
                k = match_known(known, prop, "obligation", ob["name"])
                if k:
                    known_lines.append(f"KNOWN-FINDING: property={prop} {k['what']} [obligation {ob['name']}]")
                    continue
                rec = {"property": prop, "kind": "obligation", **ob}
                p = write_replay(prop, rec)
                tail = "" if ob.get("replayed") else " no-failing-input-found"
                violations.append(f"VIOLATION property={prop} replay={p}{tail}")
            faults += proof.get("faults", [])
            if prop in ("C01", "C07"):
                # the executor's Python semantics against CPython, on the comparison callables (pyvc/crosscheck.py): the
                # contracts of these functions are stated over the same encoding on both sides, this grounds the encoding
                try:
                    from pyvc.crosscheck import run_all
                    cc = run_all(seed, 60 if tier == "quick" else 600)
                    tot = {"samples": 0, "agree": 0, "open": 0, "mismatch": 0, "functions": len(cc)}
                    for fname, st in cc.items():
                        if "error" in st:
                            # the function left the executor's subset: nothing to compare (its obligations are undecided too)
                            tot.setdefault("not_compared", []).append(f"{fname}: {st['error'][:120]}")
                            continue
                        for kk in ("samples", "agree", "open"):
                            tot[kk] += st[kk]
                        tot["mismatch"] += len(st["mismatch"])
                        for mm in st["mismatch"][:2]:
                            faults.append(f"engine cross-check: executor and CPython disagree on {fname}{mm.get('args')}: {mm}")
                    proof["engine_crosscheck"] = tot
                except Exception as e:
                    faults.append(f"engine cross-check crashed: {e!r}")

    # ---- bounded stand-in
    bounded = {}
    if not a.no_bounded:
        bounded = run_bounded(prop, tier, seed, None)
        for name, res in bounded.items():
            for sig, (idx, payload, w) in sorted(res["fails"].items()):
                k = match_known(known, prop, name, sig)
                if k:
                    known_lines.append(f"KNOWN-FINDING: property={prop} {k['what']} [clause {name} sig {sig}]")
                    continue
                rec = {"property": prop, "kind": "bounded", "clause": name, "witness": w, **payload}
                p = write_replay(prop, rec)
                violations.append(f"VIOLATION property={prop} replay={p}")
                if os.environ.get("VERIF_VERBOSE"):
                    print(f"  clause={name} sig={sig}\n    {payload['detail']}\n    observed={payload['observed']}\n    expected={payload['expected']}")
                else:
                    print(f"  clause={name} sig={sig} :: {payload['detail'][:160]}")
            for idx, tb, w in res["faults"][:3]:
                faults.append(f"clause {name} witness {json.dumps(w, default=repr)[:300]}: {tb}")

    # ---- thorough tier: the checker checks itself on the seeded changes of this property (scratch copies of the library)
    selftest = None
    if tier == "thorough" and not violations and not os.environ.get("VF_NO_SELFTEST") and os.environ.get("VALIDA_SRC", "/repo") == "/repo":
        selftest = run_selftest(prop)
        # a missed seed is a weakness of the check, not a statement about the tree: recorded in the evidence and on stderr,
        # the exit code is not affected
        selftest["missed"] = sorted(name for name, rc in selftest["results"].items() if rc != 1)
        for name in selftest["missed"]:
            print(f"SELF-TEST: the seeded change {name} (known to break {prop}) was not reported (exit {selftest['results'][name]})", file=sys.stderr)

    for l in sorted(set(known_lines)):
        print(l)
    for v in violations:
        print(v)
    from vf.evidence import write_evidence
    write_evidence(prop, tier, seed, proof, bounded, known_lines, violations, faults, time.time() - t0, selftest=selftest)
    if faults:
        for f in faults[:5]:
            print("CHECKER-FAULT:", f, file=sys.stderr)
        if not violations:
            return 3          # (with violations reported, the verdict is the violation: exit 1 below)
    n_eval = sum(r["evaluations"] for r in bounded.values())
    n_ob = proof["obligations"] if proof else 0
    if n_eval == 0 and n_ob == 0:
        print("CHECKER-FAULT: nothing was checked", file=sys.stderr)
        return 3
    print(f"{prop}: obligations {proof['discharged'] if proof else 0}/{n_ob} discharged; bounded evaluations {n_eval}; "
          f"violations {len(violations)}; known findings {len(set(known_lines))}; {time.time() - t0:.1f}s")
    return 1 if violations else 0


if __name__ == "__main__":
    sys.exit(main())
