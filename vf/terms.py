"""Term language for test/replay inputs: JSON-serialisable descriptions of documents, conditions,
path parts, paths, rules and schemas, and a builder that turns a term into real valida objects.

Terms are what generators emit, what replay files carry and what the oracle (vf/oracle.py) is
defined on: the oracle never looks at the internal state of a valida object, so a constructor
that stores the wrong thing is detected as a disagreement, not encoded.

Value terms (args of conditions and documents):
    JSON scalars as themselves; list -> list; dict with str keys -> dict;
    {"$type": "int"}            a type object
    {"$tuple": [...]}           a tuple
    {"$dict": [[k, v], ...]}    a dict with arbitrary (hashable) keys, insertion ordered
    {"$path": <path term>}      a DataPath object used as a condition argument
Condition terms:
    {"$c": "leaf", "cls": "Value"|"ValueLength"|"ValueDataType"|"Key"|"KeyLength"|"KeyDataType"|"Index",
     "m": <DSL method name>, "a": [value terms], "k": {name: value term}}
    {"$c": "and"|"or"|"xor", "l": cond, "r": cond}
    {"$c": "null"}
Part terms:
    {"$prim": value}  a primitive part (str/int/float/bool)
    {"$p": "map"|"list"|"mol", "key": prim-or-cond, "index": ..., "value": ..., "condition": cond,
     "list_condition": cond, "map_condition": cond, "label": str}   (all optional)
Path terms:
    {"parts": [part terms], "mods": ["length", "first", ...]}   modifiers applied in that order
Rule terms:
    {"path": path term, "cond": cond term, "cast": {"str": "bool"|"int"} | None, "doc": ... }
Schema terms: {"rules": [rule terms]}
"""
import json

CLS_NAMES = ["Value", "ValueLength", "ValueDataType", "Key", "KeyLength", "KeyDataType", "Index"]
TYPE_NAMES = {"int": int, "float": float, "str": str, "list": list, "dict": dict, "bool": bool,
              "NoneType": type(None), "tuple": tuple}
INV_TYPE_NAMES = {v: k for k, v in TYPE_NAMES.items()}


# --------------------------------------------------------------------------- values
def enc(v):
    """Python value -> value term."""
    if v is None or isinstance(v, (bool, int, float, str)):
        return v
    if isinstance(v, type):
        if v in INV_TYPE_NAMES:
            return {"$type": INV_TYPE_NAMES[v]}
        return {"$class": f"{v.__module__}:{v.__qualname__}"}
    import types as _types
    if isinstance(v, (_types.FunctionType, _types.BuiltinFunctionType)):
        return {"$func": f"{v.__module__}:{v.__qualname__}"}
    if getattr(type(v), "__module__", "").startswith("valida") and hasattr(v, "__dict__"):
        return {"$obj": f"{type(v).__module__}:{type(v).__qualname__}", "attrs": {k: enc(x) for k, x in v.__dict__.items()}}
    if isinstance(v, tuple):
        return {"$tuple": [enc(i) for i in v]}
    if isinstance(v, range):
        return {"$range": [v.start, v.stop]}
    if isinstance(v, list):
        return [enc(i) for i in v]
    if isinstance(v, dict):
        if any(k in v for k in ("$type", "$tuple", "$dict", "$path", "$obj", "$func", "$class", "$range")):
            return v                                       # already a term
        if all(isinstance(k, str) and not k.startswith("$") for k in v):
            return {k: enc(x) for k, x in v.items()}
        return {"$dict": [[enc(k), enc(x)] for k, x in v.items()]}
    raise TypeError(f"cannot encode {v!r}")


def dec(t, V=None):
    """value term -> Python value (V: the valida namespace, needed only for $path)."""
    if isinstance(t, list):
        return [dec(i, V) for i in t]
    if isinstance(t, dict):
        if "$type" in t:
            return TYPE_NAMES[t["$type"]]
        if "$tuple" in t:
            return tuple(dec(i, V) for i in t["$tuple"])
        if "$range" in t:
            return range(*t["$range"])
        if "$dict" in t:
            return {dec(k, V): dec(x, V) for k, x in t["$dict"]}
        if "$path" in t:
            return build_path(t["$path"], V)
        if "$func" in t or "$class" in t:
            import importlib
            mod, qn = (t.get("$func") or t.get("$class")).split(":")
            o = importlib.import_module(mod)
            for part in qn.split("."):
                o = getattr(o, part)
            return o
        if "$obj" in t:
            import importlib
            mod, qn = t["$obj"].split(":")
            c = importlib.import_module(mod)
            for part in qn.split("."):
                c = getattr(c, part)
            o = object.__new__(c)
            o.__dict__.update({k: dec(x, V) for k, x in t["attrs"].items()})
            return o
        return {k: dec(x, V) for k, x in t.items()}
    return t


# --------------------------------------------------------------------------- valida namespace
class Namespace:
    """The valida names the builder needs, imported from the tree under test."""

    def __init__(self):
        import valida.conditions as c
        import valida.datapath as d
        import valida.data as da
        import valida.rules as r
        import valida.schema as s
        import valida.casting as ca
        import valida.errors as e
        self.c, self.d, self.da, self.r, self.s, self.ca, self.e = c, d, da, r, s, ca, e
        self.cls = {n: getattr(c, n) for n in CLS_NAMES}


_NS = None


def ns():
    global _NS
    if _NS is None:
        _NS = Namespace()
    return _NS


# --------------------------------------------------------------------------- builders
class BuildError(Exception):
    """A valida constructor raised while building a term that the property's quantifier contains."""

    def __init__(self, what, exc):
        super().__init__(f"building {what} raised {exc!r}")
        self.what, self.exc = what, exc


def _guard(show):
    def deco(fn):
        def wrapped(t, V=None):
            try:
                return fn(t, V)
            except BuildError:
                raise
            except (Exception, RecursionError) as e:
                raise BuildError(show(t), e) from e
        wrapped.__name__ = fn.__name__
        return wrapped
    return deco


@_guard(lambda t: show_cond(t))
def build_cond(t, V=None):
    V = V or ns()
    k = t["$c"]
    if k == "null":
        return V.c.NullCondition()
    if k == "leaf":
        meth = getattr(V.cls[t["cls"]], t["m"])
        return meth(*[dec(a, V) for a in t.get("a", [])], **{n: dec(a, V) for n, a in t.get("k", {}).items()})
    l, r = build_cond(t["l"], V), build_cond(t["r"], V)
    if k == "and":
        return l & r
    if k == "or":
        return l | r
    if k == "xor":
        return l ^ r
    raise ValueError(k)


def _part_arg(x, V):
    if isinstance(x, dict) and "$c" in x:
        return build_cond(x, V)
    return dec(x, V)


@_guard(lambda t: show_part(t))
def build_part(t, V=None):
    V = V or ns()
    if "$prim" in t:
        return dec(t["$prim"], V)
    cls = {"map": V.d.MapValue, "list": V.d.ListValue, "mol": V.d.MapOrListValue}[t["$p"]]
    kw = {}
    for f in ("key", "index", "value", "condition", "list_condition", "map_condition"):
        if f in t:
            kw[f] = _part_arg(t[f], V)
    if "label" in t:
        kw["label"] = t["label"]
    return cls(**kw)


@_guard(lambda t: show_path(t))
def build_path(t, V=None):
    V = V or ns()
    p = V.d.DataPath(*[build_part(i, V) for i in t["parts"]])
    for m in t.get("mods", []):
        p = getattr(p, m)()
    return p


def build_cast(t, V=None):
    V = V or ns()
    if not t:
        return t
    T = {"str": str, "bool": bool, "int": int}
    return {T[a]: V.ca.CAST_LOOKUP[(T[a], T[b])] for a, b in t.items()}


@_guard(lambda t: show_rule(t))
def build_rule(t, V=None):
    V = V or ns()
    return V.r.Rule(build_path(t["path"], V), build_cond(t["cond"], V), cast=build_cast(t.get("cast"), V),
                    doc=dec(t.get("doc"), V))


def build_schema(t, V=None):
    V = V or ns()
    return V.s.Schema([build_rule(r, V) for r in t["rules"]])


# --------------------------------------------------------------------------- display
def show_val(t):
    if isinstance(t, dict):
        if "$type" in t:
            return t["$type"]
        if "$tuple" in t:
            return "(" + ", ".join(show_val(i) for i in t["$tuple"]) + ("," if len(t["$tuple"]) == 1 else "") + ")"
        if "$dict" in t:
            return "{" + ", ".join(f"{show_val(k)}: {show_val(v)}" for k, v in t["$dict"]) + "}"
        if "$path" in t:
            return show_path(t["$path"])
        return "{" + ", ".join(f"{k!r}: {show_val(v)}" for k, v in t.items()) + "}"
    if isinstance(t, list):
        return "[" + ", ".join(show_val(i) for i in t) + "]"
    return repr(t)


_CLS_SHOW = {"Value": "Value", "ValueLength": "Value.length", "ValueDataType": "Value.dtype", "Key": "Key",
             "KeyLength": "Key.length", "KeyDataType": "Key.dtype", "Index": "Index"}


def show_cond(t):
    k = t["$c"]
    if k == "null":
        return "NullCondition()"
    if k == "leaf":
        args = [show_val(a) for a in t.get("a", [])] + [f"{n}={show_val(a)}" for n, a in t.get("k", {}).items()]
        return f"{_CLS_SHOW[t['cls']]}.{t['m']}({', '.join(args)})"
    op = {"and": "&", "or": "|", "xor": "^"}[k]
    return f"({show_cond(t['l'])} {op} {show_cond(t['r'])})"


def show_part(t):
    if "$prim" in t:
        return show_val(t["$prim"])
    name = {"map": "MapValue", "list": "ListValue", "mol": "MapOrListValue"}[t["$p"]]
    args = []
    for f in ("key", "index", "value", "condition", "list_condition", "map_condition"):
        if f in t:
            x = t[f]
            args.append(f"{f}={show_cond(x) if isinstance(x, dict) and '$c' in x else show_val(x)}")
    if "label" in t:
        args.append(f"label={t['label']!r}")
    return f"{name}({', '.join(args)})"


def show_path(t):
    s = "DataPath(" + ", ".join(show_part(i) for i in t["parts"]) + ")"
    for m in t.get("mods", []):
        s += f".{m}()"
    return s


def show_rule(t):
    s = f"Rule({show_path(t['path'])}, {show_cond(t['cond'])}"
    if t.get("cast"):
        s += f", cast={t['cast']}"
    if t.get("doc"):
        s += f", doc={show_val(t['doc'])}"
    return s + ")"


def jdump(x):
    return json.dumps(x, sort_keys=True, default=repr)
