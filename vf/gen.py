"""Generators of terms (vf/terms.py): documents, conditions, parts, paths, rules, schemas, specs.
All randomness comes from the random.Random passed in (seeded from VERIF_SEED)."""
import itertools

from .terms import enc
from .oracle import CLS_CALLABLES, GENERAL, MAPC, SIG, CLS_KIND, CLS_LABEL

ATOMS = [None, True, False, 0, 1, -1, 2, 7, 0.0, 1.5, -2.5, "", "a", "b", "1", "1.5", "true", "%z", "<b>&"]
KEYS = ["a", "b", "c", 0, 1, 2, 1.5, True, None, "1"]
TYPES = ["int", "float", "str", "list", "dict", "bool"]


def gen_val(r, depth):
    x = r.random()
    if depth <= 0 or x < 0.45:
        return r.choice(ATOMS)
    if x < 0.75:
        return [gen_val(r, depth - 1) for _ in range(r.randint(0, 3))]
    return {r.choice(KEYS): gen_val(r, depth - 1) for _ in range(r.randint(0, 3))}


def gen_doc(r, depth=3):
    while True:
        d = gen_val(r, depth)
        if isinstance(d, (list, dict)) and d:
            return d


def small_docs():
    """A fixed small-scope family of documents (depth <= 2) used exhaustively by the quick tier."""
    leaves = [None, True, 0, 1, -1, 2, 1.5, "", "a", "1", "true", "%z", [], {}, [1, "a"], {"a": 1}, {"a": {"b": 2}},
              [[1], [2, 3]], {0: "x", 1: "y"}, {"a": "1", "b": "true"}]
    docs = []
    for a in leaves:
        docs.append([a])
        docs.append({"a": a})
    docs += [[0, 1, 2, 3], ["a", "b", "1", "zz"], {"a": 1, "b": 2, "c": 3}, {0: 1, 1: 2, 1.5: 3, None: 4, "1": 5},
             {"a": [1, 2, {"b": "1"}], "b": {"c": ["true", "x"]}}, [{"a": 1}, {"a": "1"}, {"b": 2}, 5, []],
             {"a": {"x": 1, "y": "2"}, "b": {"x": "3"}, 1: {"x": 0}}, [[1, 2], [3], "ab", {"a": [4]}],
             {True: "t", "a": None}, [0, 0.0, False, "", None]]
    return docs


# --------------------------------------------------------------------------- leaf conditions
def _enc_key(k):
    return k


def leaf(cls, m, *a, **k):
    t = {"$c": "leaf", "cls": cls, "m": m}
    if a:
        t["a"] = list(a)
    if k:
        t["k"] = k
    return t


def gen_leaf_args(r, cls, m, well_typed=False, spec_form=False):
    """Arguments for DSL method m of class cls (as a list of positional terms and dict of keyword terms)."""
    dtype = cls.endswith("DataType")
    length = cls.endswith("Length")
    atom = lambda: r.choice(ATOMS)
    num = lambda: r.choice([0, 1, 2, 3, -1, 1.5, 2.0, 7])
    nz = lambda: r.choice([1, 2, 3, -1, 1.5, 2.0, 7])
    T = lambda: {"$type": r.choice(TYPES)}
    ks = lambda: [r.choice(KEYS[:9]) for _ in range(r.randint(0, 3))]
    hk = lambda: [r.choice(["a", "b", "c", 0, 1, 1.5, True, None]) for _ in range(r.randint(0, 3))]
    if m in ("equal_to", "not_equal_to"):
        if dtype:
            return [T()], {}
        if length:
            return [r.choice([0, 1, 2, 3])], {}
        return [enc(gen_val(r, 1))], {}
    if dtype and spec_form and m in ("less_than", "greater_than", "less_than_or_equal_to", "greater_than_or_equal_to",
                                     "factor_of", "has_factor"):
        return [T()], {}                                    # a type pre-processor compares with types
    if m in ("less_than", "greater_than", "less_than_or_equal_to", "greater_than_or_equal_to", "eq", "lt", "gt",
             "lte", "gte"):
        if well_typed or length:
            return [num()], {}
        return [atom()], {}
    if m in ("in_", "not_in"):
        if dtype:
            return [[T(), T()]], {}
        if length:
            return [[r.choice([0, 1, 2]), r.choice([1, 3])]], {}
        if well_typed:
            return [[atom(), atom()]], {}
        return [r.choice([[atom(), atom()], "ab1", {"$dict": [[r.choice(KEYS[:8]), 1]]}, 5, [[1], "a"]])], {}
    if m in ("in_range", "not_in_range"):
        return [r.randint(-1, 2), r.randint(0, 4)], {}
    if m == "equal_to_approx":
        if r.random() < 0.5:
            return [num()], {}
        return [num(), r.choice([0.6, 1e-8, 1])], {}
    if m == "factor_of":
        return [r.choice([4, 6, 7.5, 0]) if not well_typed else r.choice([4, 6, 7.5])], {}
    if m == "has_factor":
        return [r.choice([2, 3, 1.5])] if well_typed else [r.choice([2, 3, 1.5, 0, "a"])], {}
    if m in ("truthy", "falsy", "null"):
        return [], {}
    if m in ("is_instance", "keys_is_instance"):
        return [T() for _ in range(r.randint(1, 2))], {}
    if m == "keys_contain":
        return [r.choice(KEYS[:9])], {}
    if m in ("keys_contain_any_of", "keys_contain_all_of", "keys_contain_one_of", "keys_equal_to", "allowed_keys",
             "required_keys", "forbidden_keys"):
        return (hk() if m in ("keys_equal_to", "allowed_keys", "required_keys", "forbidden_keys") else ks()), {}
    if m in ("keys_contain_N_of", "keys_contain_at_least_N_of", "keys_contain_at_most_N_of"):
        return [r.randint(0, 2), ks()], {}
    if m in ("keys_contain_at_least_one_of", "keys_contain_at_most_one_of"):
        return [ks()], {}
    if m == "items_contain":
        return [], {r.choice("abc"): atom() for _ in range(r.randint(0, 2))}
    raise KeyError(m)


def gen_leaf(r, cls=None, well_typed=False, methods=None):
    cls = cls or r.choice(["Value", "Value", "Value", "ValueLength", "ValueDataType", "Key", "KeyLength",
                           "KeyDataType", "Index"])
    pool = methods or CLS_CALLABLES[cls]
    if cls.endswith("DataType") and not methods:
        pool = ["equal_to", "not_equal_to", "in_", "not_in"]
    if cls.endswith("Length") and not methods:
        pool = ["equal_to", "not_equal_to", "less_than", "greater_than", "less_than_or_equal_to",
                "greater_than_or_equal_to", "in_", "not_in", "in_range", "not_in_range"]
    m = r.choice(pool)
    a, k = gen_leaf_args(r, cls, m, well_typed)
    return leaf(cls, m, *a, **k)


def all_leaf_shapes():
    """Every (class, callable) pair the DSL offers: the finite vocabulary of leaf conditions."""
    return [(cls, m) for cls, ms in CLS_CALLABLES.items() for m in ms]


def gen_cond(r, depth=2, kinds=("value",), well_typed=False, null_p=0.0):
    if depth == 0 or r.random() < 0.45:
        if null_p and r.random() < null_p:
            return {"$c": "null"}
        kind = r.choice(kinds)
        cls = r.choice({"value": ["Value", "Value", "ValueLength", "ValueDataType"],
                        "key": ["Key", "Key", "KeyLength", "KeyDataType"], "index": ["Index"]}[kind])
        return gen_leaf(r, cls, well_typed)
    return {"$c": r.choice(["and", "or", "xor"]), "l": gen_cond(r, depth - 1, kinds, well_typed, null_p),
            "r": gen_cond(r, depth - 1, kinds, well_typed, null_p)}


# --------------------------------------------------------------------------- parts / paths
PRIMS = ["a", "b", "c", 0, 1, 2, 1.5, True, "1", -1, -2]


def gen_part(r, well_typed=False, prim_p=0.4, trees=True):
    x = r.random()
    if x < prim_p:
        return {"$prim": r.choice(PRIMS)}

    def vc():
        if r.random() < 0.5:
            return None
        if trees and r.random() < 0.3:
            return gen_cond(r, 1, ("value",), well_typed)
        return gen_leaf(r, r.choice(["Value", "Value", "ValueDataType", "ValueLength"]), well_typed)

    def kc():
        c = r.random()
        if c < 0.3:
            return None
        if c < 0.55:
            return r.choice(["a", "b", 1, 1.5])
        if trees and c < 0.7:
            return gen_cond(r, 1, ("key",), well_typed)
        return gen_leaf(r, r.choice(["Key", "KeyDataType", "KeyLength"]), well_typed)

    def ic():
        c = r.random()
        if c < 0.3:
            return None
        if c < 0.55:
            return r.choice([0, 1, 2])
        if trees and c < 0.7:
            return gen_cond(r, 1, ("index",), well_typed)
        return gen_leaf(r, "Index", well_typed)

    t = {}
    if x < prim_p + (1 - prim_p) / 3:
        t["$p"] = "map"
        k = kc()
        if k is not None:
            t["key"] = k
    elif x < prim_p + 2 * (1 - prim_p) / 3:
        t["$p"] = "list"
        i = ic()
        if i is not None:
            t["index"] = i
    else:
        t["$p"] = "mol"
        k, i = kc(), ic()
        if k is not None:
            t["key"] = k
        if i is not None:
            t["index"] = i
    v = vc()
    if v is not None:
        t["value"] = v
    if r.random() < 0.1:
        t["label"] = r.choice(["lbl", "x", "", 0])
    return t


def gen_path(r, maxlen=3, well_typed=False, prim_p=0.4, mods=False):
    p = {"parts": [gen_part(r, well_typed, prim_p) for _ in range(r.randint(0, maxlen))]}
    if mods:
        ms = []
        conc = all("$prim" in i for i in p["parts"])
        if r.random() < 0.6:
            ms.append(r.choice(["dtype", "length", "map_keys", "map_values"]))
        if not conc and r.random() < 0.7:
            ms.append(r.choice(["first", "last", "single", "all"]))
        r.shuffle(ms)
        p["mods"] = ms
    return p


def gen_concrete_path(r, maxlen=3):
    return {"parts": [{"$prim": r.choice(PRIMS)} for _ in range(r.randint(0, maxlen))]}


def path_into(r, doc, maxlen=3, fan_p=0.3):
    """A path that follows the document (so that it usually selects something)."""
    parts = []
    n = doc
    for _ in range(r.randint(0, maxlen)):
        if not isinstance(n, (list, dict)) or not n:
            break
        if isinstance(n, dict):
            k = r.choice(list(n.keys()))
            if r.random() < fan_p:
                parts.append({"$p": r.choice(["map", "mol"])})
            elif isinstance(k, (str, int, float)) and k is not None:
                parts.append({"$prim": k})
            else:
                parts.append({"$p": "map", "key": {"$c": "leaf", "cls": "Key", "m": "equal_to", "a": [k]}})
            n = n[k]
        else:
            i = r.randrange(len(n))
            if r.random() < fan_p:
                parts.append({"$p": r.choice(["list", "mol"])})
            else:
                parts.append(r.choice([{"$prim": i}, {"$p": "list", "index": i}]))
            n = n[i]
    return {"parts": parts}


# --------------------------------------------------------------------------- rules / schemas
def gen_rule(r, doc=None, well_typed=False, cast_p=0.0, depth=2):
    if doc is not None and r.random() < 0.7:
        p = path_into(r, doc)
    else:
        p = gen_path(r, 3, well_typed)
    t = {"path": p, "cond": gen_cond(r, depth, ("value",), well_typed)}
    if cast_p and r.random() < cast_p:
        t["cast"] = r.choice([{"str": "bool"}, {"str": "int"}])
    return t


def gen_schema(r, doc=None, n=None, well_typed=False, cast_p=0.0):
    n = r.randint(0, 4) if n is None else n
    return {"rules": [gen_rule(r, doc, well_typed, cast_p) for _ in range(n)]}


# --------------------------------------------------------------------------- specs (C09/C10)
def leaf_spec_spellings(r, t):
    """Specs '<datum>[.<pre>].<callable>: args' equivalent to leaf term t: [(key, value term)]."""
    from .terms import dec
    label = CLS_LABEL[t["cls"]]
    m = t["m"]
    kind, names = SIG[m]
    a, k = t.get("a", []), t.get("k", {})

    def tn(v):  # types may be written as names
        if isinstance(v, dict) and "$type" in v:
            return v["$type"]
        if isinstance(v, list):
            return [tn(i) for i in v]
        return v

    name_ok = t["cls"].endswith("DataType") or m in ("is_instance", "keys_is_instance")
    f = tn if name_ok else (lambda v: v)
    if kind == "none":
        vals = [None]
    elif kind == "var":
        vals = [[f(x) for x in a]]
    elif kind == "kw":
        vals = [dict(k)]
    elif len(names) == 1:
        vals = [f((a + list(k.values()))[0])]
    else:
        full = list(a) + [k[n] for n in names[len(a):] if n in k]
        vals = [[f(x) for x in full], {n: f(x) for n, x in zip(names, full)}]
    keys = [f"{label}.{m}"]
    if label.endswith("dtype"):
        keys.append(label.replace("dtype", "type") + "." + m)
    if label.endswith("length"):
        keys.append(label.replace("length", "len") + "." + m)
    if m == "in_":
        keys += [k2[:-3] + "in" for k2 in list(keys)]
    cased = []
    for k2 in keys:
        cased += [k2, k2.upper(), k2.title()]
    return [(k2, v) for k2 in cased for v in vals]
