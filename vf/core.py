"""Registry of executable clauses (the bounded stand-in and the replay target), and small helpers.

A *clause* is a named executable statement of (part of) a property: a function taking a witness
(a JSON-serialisable dict of terms) and returning None when the real code satisfies the clause on it,
or a Fail(sig, detail).  `sig` identifies *what* fails (call site / input class) and is what
known_findings.json matches on, so a different violation of the same clause is still reported.
"""
import copy
import traceback


class Fail:
    def __init__(self, sig, detail, observed=None, expected=None):
        self.sig, self.detail, self.observed, self.expected = sig, detail, observed, expected

    def to_json(self):
        return {"sig": self.sig, "detail": self.detail, "observed": _short(self.observed),
                "expected": _short(self.expected)}


def _short(x, n=600):
    s = x if isinstance(x, str) else repr(x)
    return s if len(s) <= n else s[:n] + "…"


CLAUSES = {}   # (property, name) -> dict(fn=, gen=, doc=)


def clause(prop, name, doc=""):
    def deco(fn):
        CLAUSES[(prop, name)] = {"fn": fn, "gen": None, "doc": doc or (fn.__doc__ or "").strip()}
        return fn
    return deco


def cases(prop, name):
    def deco(gen):
        CLAUSES[(prop, name)]["gen"] = gen
        return gen
    return deco


def run_clause(prop, name, witness):
    """Evaluate a clause on a witness against the real code; an unexpected exception inside the
    clause body itself (not in the code under test) is a checker fault and propagates."""
    from .terms import BuildError
    try:
        return CLAUSES[(prop, name)]["fn"](witness)
    except BuildError as e:
        return Fail(f"construct:{exc_sig(e.exc)}", str(e))


def exc_sig(e):
    tb = traceback.extract_tb(e.__traceback__)
    where = ""
    for fr in reversed(tb):
        if "/valida/" in fr.filename:
            where = f"{fr.filename.split('/valida/')[-1]}:{fr.name}"
            break
    return f"{type(e).__name__}@{where}"


# --------------------------------------------------------------------------- snapshots
def snap(x, _seen=None, _depth=0):
    """Type-exact deep structural snapshot of any object graph (valida objects via __dict__),
    cycle-safe; identity of shared sub-objects is not recorded, structure is."""
    if _seen is None:
        _seen = {}
    if x is None or isinstance(x, (bool, int, float, str, bytes)):
        return (type(x).__name__, x)
    if isinstance(x, type) or callable(x) and not hasattr(x, "__dict__"):
        return ("callable", getattr(x, "__qualname__", repr(x)))
    if id(x) in _seen:
        return ("cycle", _seen[id(x)])
    _seen[id(x)] = len(_seen)
    try:
        if isinstance(x, dict):
            return ("dict", tuple((snap(k, _seen), snap(v, _seen)) for k, v in x.items()))
        if isinstance(x, (list, tuple)):
            return (type(x).__name__, tuple(snap(i, _seen) for i in x))
        if isinstance(x, (set, frozenset)):
            return ("set", tuple(sorted(repr(snap(i, _seen)) for i in x)))
        if isinstance(x, range):
            return ("range", (x.start, x.stop, x.step))
        import enum
        if isinstance(x, enum.Enum):
            return ("enum", str(x))
        if callable(x) and hasattr(x, "__qualname__"):
            return ("callable", x.__qualname__)
        d = getattr(x, "__dict__", None)
        if d is not None:
            return (type(x).__qualname__, tuple((k, snap(v, _seen)) for k, v in sorted(d.items())))
        return ("repr", repr(x))
    finally:
        del _seen[id(x)]


def deep(x):
    return copy.deepcopy(x)
