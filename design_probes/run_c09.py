import sys, json; sys.path.insert(0, __import__('os').path.dirname(__import__('os').path.abspath(__file__))); from specs import *
classes = {'value':Value,'value.length':ValueLength,'value.dtype':ValueDataType,'key':Key,'key.length':KeyLength,'key.dtype':KeyDataType,'index':Index}
import inspect
names = [n for n in dir(Value) if not n.startswith('_') and n in SPEC or n in ('eq','lt','gt','lte','gte')]
args = {'equal_to':[1],'not_equal_to':['a'],'less_than':[1],'greater_than':[1],'less_than_or_equal_to':[1],'greater_than_or_equal_to':[1],'in_':[[1,2]],'not_in':[[1,2]],
 'in_range':[1,3],'not_in_range':[1,3],'equal_to_approx':[1.0,0.1],'factor_of':[4],'has_factor':[2],'truthy':[],'falsy':[],'null':[],'is_instance':[int,str],
 'keys_contain':['a'],'keys_contain_any_of':['a','b'],'keys_contain_all_of':['a','b'],'keys_contain_N_of':[1,['a','b']],'keys_contain_at_least_N_of':[1,['a','b']],'keys_contain_at_most_N_of':[1,['a','b']],
 'keys_contain_one_of':['a','b'],'keys_contain_at_least_one_of':[['a','b']],'keys_contain_at_most_one_of':[['a','b']],'keys_equal_to':['a','b'],'keys_is_instance':[str],'items_contain':{'a':1},
 'allowed_keys':['a','b'],'required_keys':['a'],'forbidden_keys':['a']}
from valida.utils import get_func_args_by_kind
INV={int:'int',float:'float',str:'str',list:'list',dict:'dict',bool:'bool'}
res = {}
shapes = 0
for label, cls in classes.items():
    for name, a in args.items():
        if not hasattr(cls, name): continue
        shapes += 1
        dt = 'dtype' in label
        if dt and name not in ('equal_to','not_equal_to','in_','not_in'): continue
        aa = a
        if dt: aa = [int] if name in ('equal_to','not_equal_to') else [[int,str]]
        try: dsl = getattr(cls, name)(**aa) if isinstance(aa, dict) else getattr(cls, name)(*aa)
        except Exception as e: res[(label,name)] = 'DSL-CONSTRUCT '+type(e).__name__; continue
        fa = get_func_args_by_kind(getattr(cls, name))
        tn = lambda v: INV.get(v, v) if not isinstance(v, list) else [INV.get(i,i) for i in v]
        if isinstance(aa, dict): vals=[aa]
        elif not aa: vals=[None]
        elif fa['VAR_POSITIONAL']: vals=[[tn(v) for v in aa]]
        elif len(fa['POSITIONAL_OR_KEYWORD'])==1: vals=[tn(aa[0])]
        else: vals=[list(aa), dict(zip(fa['POSITIONAL_OR_KEYWORD'], aa))]
        spell = [f'{label}.{name}', f'{label}.{name}'.upper(), f'{label}.{name}'.title()]
        if label.endswith('dtype'): spell.append(label.replace('dtype','type')+'.'+name)
        if label.endswith('length'): spell.append(label.replace('length','len')+'.'+name)
        if name=='in_': spell.append(label+'.in')
        for k in spell:
            for v in vals:
                try:
                    got = ConditionLike.from_spec({k: copy.deepcopy(v)})
                    if got != dsl or type(got) is not type(dsl): res[(label,name)] = ('NEQ', k, repr(got))
                except Exception as e:
                    res[(label,name)] = (type(e).__name__, k, str(e)[:50])
print('shapes', shapes)
for k,v in sorted(res.items(), key=str): print(k, v)
