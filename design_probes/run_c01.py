import sys; sys.path.insert(0, __import__('os').path.dirname(__import__('os').path.abspath(__file__))); from specs import *
r = random.Random(1); bad = {}; n = 0
for _ in range(20000):
    c = gen_leaf(r); d = gen_doc(r, 2)
    k = kind(c)
    if (k == 'key' and not isinstance(d, dict)) or (k == 'index' and not isinstance(d, list)): continue
    ch = children(d); ks = [a for a, _ in ch]; vs = [b for _, b in ch]
    want = Sem(c, ks, vs)
    try:
        f = c.filter(d); got = f.result
        ok = got == want and f.data == [v for v, w in zip(vs, want) if w] and f.keys == [x for x, w in zip(ks, want) if w] and f.failure_indices == [i for i, w in enumerate(want) if not w]
        if not ok: bad.setdefault(('MISMATCH', c.callable.name), (repr(c), d, got, want))
    except Exception as e:
        bad.setdefault((type(e).__name__, c.callable.name), (repr(c), d, str(e)[:60]))
    n += 1
print('cases', n)
for k, v in sorted(bad.items(), key=str): print(k, v)
