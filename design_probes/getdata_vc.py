# hand-written VC spike for DataPath.get_data inner/outer loop (feasibility of the encoding only)
import z3, time
V = z3.DeclareSort('V')          # node values
P = z3.SeqSort(V)                # a concrete path = seq of keys (keys are V too)
SV = z3.SeqSort(V); SP = z3.SeqSort(P)
part = z3.Const('part', V)
App = z3.Function('Applicable', V, V, z3.BoolSort())       # part, node
SelV = z3.Function('SelVals', V, V, SV)                    # part, node -> selected child values
SelK = z3.Function('SelKeys', V, V, SV)                    # part, node -> selected child keys
# paths for the children of node j: Map(lambda k: cp ++ [k], SelKeys)
Ext = z3.RecFunction('Ext', P, SV, z3.IntSort(), SP)
cp = z3.Const('cp', P); ks = z3.Const('ks', SV); n = z3.Int('n')
z3.RecAddDefinition(Ext, [cp, ks, n], z3.If(n <= 0, z3.Empty(SP), z3.Concat(Ext(cp, ks, n-1), z3.Unit(z3.Concat(cp, z3.Unit(ks[n-1]))))))
FMv = z3.RecFunction('FMv', V, SV, SP, z3.IntSort(), SV)
FMp = z3.RecFunction('FMp', V, SV, SP, z3.IntSort(), SP)
p = z3.Const('p', V); wv = z3.Const('wv', SV); wp = z3.Const('wp', SP); j = z3.Int('j')
z3.RecAddDefinition(FMv, [p, wv, wp, j], z3.If(j <= 0, z3.Empty(SV),
    z3.If(App(p, wv[j-1]), z3.Concat(FMv(p, wv, wp, j-1), SelV(p, wv[j-1])), FMv(p, wv, wp, j-1))))
z3.RecAddDefinition(FMp, [p, wv, wp, j], z3.If(j <= 0, z3.Empty(SP),
    z3.If(App(p, wv[j-1]), z3.Concat(FMp(p, wv, wp, j-1), Ext(wp[j-1], SelK(p, wv[j-1]), z3.Length(SelK(p, wv[j-1])))), FMp(p, wv, wp, j-1))))
def prove(name, hyps, goal, expect):
    s = z3.Solver(); s.set('timeout', 20000); s.add(*hyps); s.add(z3.Not(goal))
    t = time.time(); r = s.check(); print(f'{name:45s} {r} (expect {expect}) {time.time()-t:.3f}s')
    return s
data, nd, nd2 = z3.Consts('data nd nd2', SV); cps, np_, np2 = z3.Consts('cps np np2', SP)
fd_data, fd_keys = z3.Consts('fd_data fd_keys', SV)
jj = z3.Int('jj')
inv = lambda nd, np_, jj: z3.And(nd == FMv(part, data, cps, jj), np_ == FMp(part, data, cps, jj))
pre = [0 <= jj, jj < z3.Length(data), z3.Length(data) == z3.Length(cps), inv(nd, np_, jj)]
# iteration, applicable branch: part.filter(datum) returned fd with contract data==SelV, keys==SelK
comp = z3.Const('comp', SP)   # [concrete_paths[datum_idx] + [i] for i in filtered_data.keys]  (map comprehension)
kk = z3.Int('kk')
comp_ax = [z3.Length(comp) == z3.Length(fd_keys), z3.ForAll([kk], z3.Implies(z3.And(0 <= kk, kk < z3.Length(fd_keys)), comp[kk] == z3.Concat(cps[jj], z3.Unit(fd_keys[kk]))))]
# lemma needed: comprehension == Ext(...)  (map-comprehension vs snoc-recursive spec) -- proved separately by induction; here assume as lemma instance
lemma = [comp == Ext(cps[jj], fd_keys, z3.Length(fd_keys))]
app_branch = pre + [App(part, data[jj]), fd_data == SelV(part, data[jj]), fd_keys == SelK(part, data[jj]),
                    nd2 == z3.Concat(nd, fd_data), np2 == z3.Concat(np_, comp)] + comp_ax
prove('inner step (applicable) with lemma', app_branch + lemma, inv(nd2, np2, jj+1), 'unsat')
prove('inner step (applicable) w/o lemma', app_branch, inv(nd2, np2, jj+1), 'unknown/unsat')
prove('inner step (TypeError -> continue)', pre + [z3.Not(App(part, data[jj])), nd2 == nd, np2 == np_], inv(nd2, np2, jj+1), 'unsat')
# mutant: misaligned path index concrete_paths[-1]
comp_bad = [z3.Length(comp) == z3.Length(fd_keys), z3.ForAll([kk], z3.Implies(z3.And(0 <= kk, kk < z3.Length(fd_keys)), comp[kk] == z3.Concat(cps[z3.Length(cps)-1], z3.Unit(fd_keys[kk]))))]
bad = pre + [App(part, data[jj]), fd_data == SelV(part, data[jj]), fd_keys == SelK(part, data[jj]), nd2 == z3.Concat(nd, fd_data), np2 == z3.Concat(np_, comp)] + comp_bad
s = prove('MUTANT paths[-1] instead of [datum_idx]', bad, inv(nd2, np2, jj+1), 'sat')
# mutant: continue removed => exception escapes: not a VC here
# lemma by induction: map comprehension equals Ext  (induction on length m)
m = z3.Int('m'); c2 = z3.Const('c2', SP); base = z3.Const('base', P); keys = z3.Const('keys', SV)
def mapdef(c, m): return z3.And(z3.Length(c) == m, z3.ForAll([kk], z3.Implies(z3.And(0 <= kk, kk < m), c[kk] == z3.Concat(base, z3.Unit(keys[kk])))))
# step: assume IH for prefix of length m (for the prefix sequence extract(c2,0,m)), show for m+1
pref = z3.SubSeq(c2, 0, m)
prove('lemma step: comp == Ext (induction)', [0 <= m, m < z3.Length(keys), mapdef(c2, m+1), z3.Implies(mapdef(pref, m), pref == Ext(base, keys, m))], c2 == Ext(base, keys, m+1), 'unsat')
