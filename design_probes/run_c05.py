import sys; sys.path.insert(0, __import__('os').path.dirname(__import__('os').path.abspath(__file__))); from specs import *; from genpath import gen_part
def gen_cond(r, depth=2):
    if depth == 0 or r.random() < 0.5: return gen_leaf(r, r.choice([Value, Value, Value.dtype, Value.length]))
    a, b = gen_cond(r, depth-1), gen_cond(r, depth-1)
    return r.choice([lambda: a & b, lambda: a | b, lambda: a ^ b])()
def RuleTestSpec(rule, doc):
    W = Walk(rule.path.parts, doc)
    if not W: return dict(valid=True, tested=False, failures=[])
    vs = [v for v, _ in W]; V = Sem(rule.condition, list(range(len(vs))), vs)
    return dict(valid=all(V), tested=True, failures=[(j, W[j][1], W[j][0]) for j in range(len(W)) if not V[j]])
r = random.Random(3); bad = {}; n = 0; nfail = 0
for _ in range(15000):
    try:
        p = DataPath(*[gen_part(r) for _ in range(r.randint(0, 3))]); c = gen_cond(r)
    except RecursionError: bad.setdefault(('CONSTRUCT RecursionError',), 1); continue
    d = gen_doc(r, 3); rule = Rule(p, c)
    want = RuleTestSpec(rule, d)
    try:
        before = copy.deepcopy(d)
        t = rule.test(d)
        got = dict(valid=t.is_valid, tested=t.tested, failures=[(f.index, f.path, f.value) for f in t.failures])
        if got != want: bad.setdefault(('MISMATCH',), (repr(rule)[:300], d, got, want))
        if any(len(f.reasons) < 1 for f in t.failures): bad.setdefault(('NOREASON',), (repr(rule)[:300], d))
        if t.num_failures != len(t.failures): bad.setdefault(('COUNT',), 1)
        if d != before: bad.setdefault(('MUTATED',), (repr(rule)[:300], d, before))
        nfail += len(t.failures) > 1
    except Exception as e:
        bad.setdefault((type(e).__name__, str(e)[:40]), (repr(rule)[:300], d))
    n += 1
print('cases', n, 'multi-failure cases', nfail)
for k, v in sorted(bad.items(), key=str): print(k, v)
