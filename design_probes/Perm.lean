import Mathlib.Data.List.Perm.Basic
import Mathlib.Algebra.BigOperators.Group.List.Basic

theorem sum_perm (f : α → Nat) (l₁ l₂ : List α) (h : l₁.Perm l₂) :
    (l₁.map f).sum = (l₂.map f).sum := (h.map f).sum_eq

theorem all_perm (p : α → Bool) (l₁ l₂ : List α) (h : l₁.Perm l₂) :
    l₁.all p = l₂.all p := by
  rw [Bool.eq_iff_iff]; simp only [List.all_eq_true]
  exact ⟨fun H x hx => H x (h.mem_iff.mpr hx), fun H x hx => H x (h.mem_iff.mp hx)⟩
