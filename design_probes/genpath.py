import sys; sys.path.insert(0, '/tmp/spike'); from specs import *
def gen_part(r):
    x = r.random()
    if x < 0.4: return r.choice(['a', 'b', 'c', 0, 1, 2, 1.5, True, '1'])
    def vc(): return gen_leaf(r, r.choice([Value, Value, Value.dtype, Value.length])) if r.random() < 0.5 else None
    if x < 0.6:
        kc = r.choice([None, None, 'a', 1, lambda: gen_leaf(r, r.choice([Key, Key.dtype, Key.length]))])
        return MapValue(key=kc() if callable(kc) else kc, value=vc())
    if x < 0.8:
        ic = r.choice([None, None, 0, 1, lambda: gen_leaf(r, Index)])
        return ListValue(index=ic() if callable(ic) else ic, value=vc())
    kc = r.choice([None, None, 'a', 1, lambda: gen_leaf(r, Key)]); ic = r.choice([None, None, 0, lambda: gen_leaf(r, Index)])
    return MapOrListValue(key=kc() if callable(kc) else kc, index=ic() if callable(ic) else ic, value=vc())
