import sys; sys.path.insert(0, __import__('os').path.dirname(__import__('os').path.abspath(__file__))); from specs import *
def gen_part(r):
    x = r.random()
    if x < 0.4: return r.choice(['a', 'b', 'c', 0, 1, 2, 1.5, True, '1'])
    def vc(): return gen_leaf(r, r.choice([Value, Value, Value.dtype, Value.length])) if r.random() < 0.5 else None
    if x < 0.6:
        kc = r.choice([None, None, 'a', 1, lambda: gen_leaf(r, r.choice([Key, Key.dtype, Key.length]))])
        return MapValue(key=kc() if callable(kc) else kc, value=vc())
    if x < 0.8:
        ic = r.choice([None, None, 0, 1, lambda: gen_leaf(r, Index)])
        return ListValue(index=ic() if callable(ic) else ic, value=vc())
    kc = r.choice([None, None, 'a', 1, lambda: gen_leaf(r, Key)]); ic = r.choice([None, None, 0, lambda: gen_leaf(r, Index)])
    return MapOrListValue(key=kc() if callable(kc) else kc, index=ic() if callable(ic) else ic, value=vc())
r = random.Random(2); bad = {}; n = 0; nontrivial = 0
for _ in range(20000):
    try:
        parts = [gen_part(r) for _ in range(r.randint(0, 4))]
        p = DataPath(*parts)
    except RecursionError as e:
        bad.setdefault(('CONSTRUCT', type(e).__name__), 1); continue
    d = gen_doc(r, 3)
    for rp in (False, True):
        want = GetDataSpec(p, d, rp)
        try:
            got = p.get_data(d, return_paths=rp)
            got2 = Data(d).get(p, return_paths=rp)
            if got != want or got2 != want or type(got) != type(want):
                bad.setdefault(('MISMATCH', rp), (repr(p)[:300], d, got, want))
            if rp and p.parts:
                pairs = [got] if p.is_concrete and got is not None else (got or [])
                for v, cp in pairs:
                    if IndexAt(d, cp) is not v: bad.setdefault(('UNTRUTHFUL',), (repr(p)[:200], d, cp))
                if len(set(map(repr, [cp for _, cp in pairs]))) != len(pairs): bad.setdefault(('DUP',), (repr(p)[:200], d))
                if pairs: nontrivial += 1
        except Exception as e:
            bad.setdefault((type(e).__name__, str(e)[:50]), (repr(p)[:300], d))
    n += 1
print('cases', n, 'nontrivial', nontrivial)
for k, v in sorted(bad.items(), key=str): print(k, v)
