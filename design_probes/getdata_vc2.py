import z3, time
V = z3.DeclareSort('V'); P = z3.SeqSort(V); SV = z3.SeqSort(V); SP = z3.SeqSort(P)
part = z3.Const('part', V)
App = z3.Function('Applicable', V, V, z3.BoolSort()); SelV = z3.Function('SelVals', V, V, SV); SelK = z3.Function('SelKeys', V, V, SV)
Ext = z3.RecFunction('Ext', P, SV, z3.IntSort(), SP)
cp = z3.Const('cp', P); ks = z3.Const('ks', SV); n = z3.Int('n')
z3.RecAddDefinition(Ext, [cp, ks, n], z3.If(n <= 0, z3.Empty(SP), z3.Concat(Ext(cp, ks, n-1), z3.Unit(z3.Concat(cp, z3.Unit(ks[n-1]))))))
FMp = z3.RecFunction('FMp', V, SV, SP, z3.IntSort(), SP)
p = z3.Const('p', V); wv = z3.Const('wv', SV); wp = z3.Const('wp', SP); j = z3.Int('j')
z3.RecAddDefinition(FMp, [p, wv, wp, j], z3.If(j <= 0, z3.Empty(SP),
    z3.If(App(p, wv[j-1]), z3.Concat(FMp(p, wv, wp, j-1), Ext(wp[j-1], SelK(p, wv[j-1]), z3.Length(SelK(p, wv[j-1])))), FMp(p, wv, wp, j-1))))
data = z3.Const('data', SV); cps, np_, np2 = z3.Consts('cps np np2', SP); fd_keys = z3.Const('fd_keys', SV); jj = z3.Int('jj')
pre = [0 <= jj, jj < z3.Length(data), z3.Length(data) == z3.Length(cps), np_ == FMp(part, data, cps, jj), App(part, data[jj]), fd_keys == SelK(part, data[jj])]
def run(name, comp, extra=[]):
    s = z3.Solver(); s.set('timeout', 20000); s.add(*pre, *extra); s.add(np2 == z3.Concat(np_, comp)); s.add(np2 != FMp(part, data, cps, jj+1))
    t = time.time(); r = s.check(); print(f'{name:40s} {r} {time.time()-t:.3f}s')
    if r == z3.unknown: print("   reason:", s.reason_unknown())
    if r == z3.sat:
        m = s.model(); print('   data=', m[data], ' cps=', m[cps], ' jj=', m[jj], ' fd_keys=', m.eval(fd_keys))
run('good (recursive comp)', Ext(cps[jj], fd_keys, z3.Length(fd_keys)))
run('MUTANT cps[-1] (recursive comp)', Ext(cps[z3.Length(cps)-1], fd_keys, z3.Length(fd_keys)))
run('MUTANT cps[-1] + small scope', Ext(cps[z3.Length(cps)-1], fd_keys, z3.Length(fd_keys)), [z3.Length(data) <= 2, z3.Length(fd_keys) <= 1])
# small-scope symbolic refutation: explicit finite sequences
d0,d1,k0 = z3.Consts('d0 d1 k0', V); c0,c1 = z3.Consts('c0 c1', P)
expl = [data == z3.Concat(z3.Unit(d0), z3.Unit(d1)), cps == z3.Concat(z3.Unit(c0), z3.Unit(c1)), jj == 0, fd_keys == z3.Unit(k0), z3.Length(c0) <= 1, z3.Length(c1) <= 1]
run('MUTANT cps[-1] + explicit lists', Ext(cps[z3.Length(cps)-1], fd_keys, z3.Length(fd_keys)), expl)
run('good + explicit lists', Ext(cps[jj], fd_keys, z3.Length(fd_keys)), expl)
