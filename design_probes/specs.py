# Executable oracle definitions (design-phase sanity run against the real code; not framework code)
import random, itertools, copy, sys, warnings
warnings.simplefilter('ignore')
sys.path.insert(0, '/repo')
from valida.conditions import *
from valida.datapath import *
from valida.data import Data
from valida.rules import Rule
from valida.schema import Schema
import valida.callables as cf

# ---------- Meaning -------------------------------------------------------------------------
def kind(c):  # 'value' | 'key' | 'index'
    return 'value' if isinstance(c, ValueLike) else ('key' if isinstance(c, KeyLike) else 'index')
def pre(c):
    return type(c).PRE_PROCESSOR  # None / len / type  (class attribute table)
SPEC = {  # "the comparison the name documents", over Python's own operators
 'equal_to': lambda t, value: t == value, 'not_equal_to': lambda t, value: t != value,
 'less_than': lambda t, value: t < value, 'greater_than': lambda t, value: t > value,
 'less_than_or_equal_to': lambda t, value: t <= value, 'greater_than_or_equal_to': lambda t, value: t >= value,
 'in_': lambda t, value: t in value, 'not_in': lambda t, value: t not in value,
 'in_range': lambda t, lower, upper: t in range(lower, upper), 'not_in_range': lambda t, lower, upper: t not in range(lower, upper),
 'factor_of': lambda t, value: value % t == 0, 'has_factor': lambda t, value: t % value == 0,
 'keys_contain': lambda d, key: key in d.keys(),
 'keys_contain_any_of': lambda d, *keys: any(k in d.keys() for k in keys),
 'keys_contain_all_of': lambda d, *keys: all(k in d.keys() for k in keys),
 'keys_contain_N_of': lambda d, N, keys: sum(1 for k in keys if k in d.keys()) == N,
 'keys_contain_at_least_N_of': lambda d, N, keys: sum(1 for k in keys if k in d.keys()) >= N,
 'keys_contain_at_most_N_of': lambda d, N, keys: sum(1 for k in keys if k in d.keys()) <= N,
 'keys_contain_one_of': lambda d, *keys: sum(1 for k in keys if k in d.keys()) == 1,
 'keys_contain_at_least_one_of': lambda d, keys: sum(1 for k in keys if k in d.keys()) >= 1,
 'keys_contain_at_most_one_of': lambda d, keys: sum(1 for k in keys if k in d.keys()) <= 1,
 'keys_equal_to': lambda d, *keys: set(d.keys()) == set(keys),
 'keys_is_instance': lambda d, *classes: all(isinstance(k, classes) for k in d.keys()),
 'items_contain': lambda d, **items: all((k in d.keys()) and d[k] == v for k, v in items.items()) if hasattr(d, 'keys') else (_ for _ in ()).throw(TypeError()),
 'allowed_keys': lambda d, *keys: set(d.keys()) <= set(keys),
 'required_keys': lambda d, *keys: set(keys) <= set(d.keys()),
 'forbidden_keys': lambda d, *keys: not (set(keys) & set(d.keys())),
 'equal_to_approx': lambda t, value, tolerance: abs(t - value) < tolerance,
 'truthy': lambda t: bool(t), 'falsy': lambda t: not t, 'null': lambda t: True,
 'is_instance': lambda t, *classes: isinstance(t, classes),
}
UNDEFINED = Exception      # comparison not defined for this item (whatever it raises)
def Meaning(c, x):
    p = pre(c)
    if p is not None:
        try: x = p(x)
        except TypeError: return False
    try:
        return bool(SPEC[c.callable.name](x, *c.callable.args, **c.callable.kwargs))
    except UNDEFINED:
        return False
def Sem(c, keys, values):
    if isinstance(c, ConditionBinaryOp):
        l, r = Sem(c.children[0], keys, values), Sem(c.children[1], keys, values)
        op = {'and': lambda a, b: a and b, 'or': lambda a, b: a or b, 'xor': lambda a, b: a != b}[c.FLATTEN_SYMBOL]
        return [op(a, b) for a, b in zip(l, r)]
    data = values if kind(c) == 'value' else keys
    return [Meaning(c, x) for x in data]

# ---------- Walk ----------------------------------------------------------------------------
def children(n):
    if isinstance(n, dict): return list(n.items())
    if isinstance(n, list): return list(enumerate(n))
    return None
def applicable(part, n):
    if not isinstance(n, (list, dict)) or not n: return False
    if isinstance(part, MapValue): return isinstance(n, dict)
    if isinstance(part, ListValue): return isinstance(n, list)
    return True
def part_cond(part, n):
    if isinstance(part, MapOrListValue):
        extra = part.list_condition if isinstance(n, list) else part.map_condition
        return [extra, part.condition]
    return [part.condition]
def leaf_kind_ok(c, n):   # a *bare* key/index leaf refuses the wrong container kind
    if isinstance(c, ConditionBinaryOp): return True
    if isinstance(c, KeyLike): return isinstance(n, dict)
    if isinstance(c, IndexLike): return isinstance(n, list)
    return True
def step(part, n):
    if not applicable(part, n): return []
    ch = children(n); ks = [k for k, _ in ch]; vs = [v for _, v in ch]
    conds = [c for c in part_cond(part, n) if not c.is_null]
    if len(conds) == 1 and not leaf_kind_ok(conds[0], n): return []
    sel = [all(Sem(c, ks, vs)[i] for c in conds) for i in range(len(ch))]
    return [(k, v) for (k, v), s in zip(ch, sel) if s]
def Walk(parts, doc):
    frontier = [(doc, ())]
    for p in parts:
        frontier = [(v, cp + (k,)) for (n, cp) in frontier for (k, v) in step(p, n)]
    return frontier
def IndexAt(doc, path):
    for k in path: doc = doc[k]
    return doc
def GetDataSpec(path, doc, return_paths):
    W = Walk(path.parts, doc)
    if not path.parts:
        return (doc, ()) if return_paths else doc
    out = [(v, cp) for v, cp in W] if return_paths else [v for v, _ in W]
    if path.is_concrete:
        return out[0] if out else None
    return out

# ---------- generators ----------------------------------------------------------------------
ATOMS = [None, True, False, 0, 1, -1, 2, 7, 0.0, 1.5, -2.5, '', 'a', 'b', '1', '1.5', 'true', '%z', 'a%d']
KEYS = ['a', 'b', 'c', 0, 1, 2, 1.5, True, None, '1']
def gen_val(r, depth):
    x = r.random()
    if depth <= 0 or x < 0.45: return r.choice(ATOMS)
    if x < 0.75: return [gen_val(r, depth - 1) for _ in range(r.randint(0, 3))]
    return {r.choice(KEYS): gen_val(r, depth - 1) for _ in range(r.randint(0, 3))}
def gen_doc(r, depth=3):
    while True:
        d = gen_val(r, depth)
        if isinstance(d, (list, dict)) and d: return d
def gen_leaf(r, cls=None):
    cls = cls or r.choice([Value, Value, Value.length, Value.dtype, Key, Key.length, Key.dtype, Index])
    a = lambda: r.choice(ATOMS); num = lambda: r.choice([0, 1, 2, 3, -1, 1.5, 2.0, True])
    ks = lambda: [r.choice(KEYS[:8]) for _ in range(r.randint(0, 3))]
    T = lambda: r.choice([int, float, str, list, dict, bool])
    general = [lambda: cls.equal_to(gen_val(r, 1)), lambda: cls.not_equal_to(a()), lambda: cls.less_than(a()), lambda: cls.greater_than(a()),
        lambda: cls.lte(num()), lambda: cls.gte(a()), lambda: cls.in_(r.choice([[a(), a()], 'ab1', {r.choice(KEYS[:8]): 1}, 5])), lambda: cls.not_in([a(), a()]),
        lambda: cls.in_range(r.randint(-1, 2), r.randint(0, 4)), lambda: cls.equal_to_approx(num(), 0.6), lambda: cls.factor_of(r.choice([4, 6, 7.5])),
        lambda: cls.has_factor(r.choice([2, 3, 1.5])), lambda: cls.truthy(), lambda: cls.falsy(), lambda: cls.null(), lambda: cls.is_instance(T(), T())]
    mapc = [lambda: cls.keys_contain(r.choice(KEYS)), lambda: cls.keys_contain_any_of(*ks()), lambda: cls.keys_contain_all_of(*ks()),
        lambda: cls.keys_contain_N_of(r.randint(0, 2), ks()), lambda: cls.keys_contain_at_least_N_of(1, ks()), lambda: cls.keys_contain_at_most_N_of(1, ks()),
        lambda: cls.keys_contain_one_of(*ks()), lambda: cls.keys_contain_at_least_one_of(ks()), lambda: cls.keys_contain_at_most_one_of(ks()),
        lambda: cls.keys_equal_to(*ks()), lambda: cls.keys_is_instance(T()), lambda: cls.items_contain(**{r.choice('abc'): a()}),
        lambda: cls.allowed_keys(*ks()), lambda: cls.required_keys(*ks()), lambda: cls.forbidden_keys(*ks())]
    if cls in (Value.dtype, Key.dtype):
        general = [lambda: cls.equal_to(T()), lambda: cls.in_([T(), T()]), lambda: cls.not_equal_to(T())]
    pool = general + (mapc if cls in (Value, Key) else [])
    return r.choice(pool)()
